package checks

import (
	"fmt"
	"testing/synctest"
	"time"

	sdcpb "github.com/sdcio/sdc-protos/sdcpb"

	"verif/sim"
	"verif/world"
)

// slot is the transaction-slot reference model (DESIGN C06).
type slot struct {
	open     bool
	id       string
	deadline time.Time
}

func invalidLeaf(si *world.SchemaInfo) *MLeaf {
	return NewMLeaf(si, world.P(world.E("sys"), world.E("descr")), "waytoolongvalue")
}

func runC06(rc *sim.RunCtx) {
	t := rc.T
	w, err := world.New(rc, world.Opts{DisableConcurrency: t.Bool(1, 2)})
	if err != nil {
		rc.HarnessErr("world: %v", err)
		return
	}
	defer w.Close()
	m := NewModel(w.SI)
	{
		hi := NewMLeaf(w.SI, world.P(world.E("cons"), world.E("hi")), "5")
		lo := NewMLeaf(w.SI, world.P(world.E("cons"), world.E("lo")), "1")
		if err := w.SeedRunning([]*world.Leaf{{Path: hi.Path, Abs: hi.Abs, TV: MkTV(hi.Node, hi.Lex, "typed")}, {Path: lo.Path, Abs: lo.Abs, TV: MkTV(lo.Node, lo.Lex, "typed")}}); err != nil {
			rc.HarnessErr("seed: %v", err)
			return
		}
	}
	cfg := SwarmCfg(t, "core", map[string]bool{"create": true, "change": true, "grow": true, "shrink": true, "delete": true, "reprio": true})
	cfg.FormW = []int{1, 0, 0, 0}
	g := NewGen(t, w.SI, cfg)
	var s slot
	pre := m
	var resolved []string
	txn := 0
	nops := 3 + t.Choose(6)
	if rc.Tier == "thorough" {
		nops = 3 + t.Choose(12)
	}
	timeouts := []uint32{5, 1, 30, 600}
	rpcTO := 2 * time.Second
	faultNext := false
	w.Dev.NextFault = func(int) world.DevFault {
		if faultNext {
			faultNext = false
			rc.Fault("dev-reject")
			return world.DevReject
		}
		return world.DevOK
	}
	expire := func(step int) {
		// called when simulated time passed the deadline of the open transaction
		rc.Probe("expiry")
		s.open = false
		resolved = append(resolved, s.id)
	}
	settle := func() { synctest.Wait() }
	doSet := func(step int, kind string, mustAcceptIfFree bool) {
		txn++
		var tx *TxSpec
		switch kind {
		case "invalid":
			// priority 1: above every generated intent, so that the invalid value is never shadowed by a valid one of another intent
			// (a shadowed invalid value is rightly accepted - the verdict is about the resulting configuration - and would turn
			// later valid requests into invalid ones as soon as the shadowing intent drops the leaf)
			tx = &TxSpec{ID: fmt.Sprintf("x%d", txn), Intents: []IntentSpec{{Name: "bad", Prio: 1, Leaves: []*MLeaf{invalidLeaf(w.SI)}, Edit: "create", Form: "typed"}}}
			if t.Bool(1, 2) {
				// the violated constraint sits on config the transaction does not own: /cons/hi (unhandled running
				// config, must ". >= ../lo") becomes invalid when the intent sets /cons/lo above it
				rc.Probe("invalid-foreign-owner")
				tx.Intents[0].Leaves = []*MLeaf{NewMLeaf(w.SI, world.P(world.E("cons"), world.E("lo")), "9")}
			}
		default:
			tx = g.GenTx(m)
			if tx == nil {
				return
			}
			tx.ID = fmt.Sprintf("x%d", txn)
		}
		tx.DryRun = kind == "dryrun"
		to := timeouts[t.Choose(len(timeouts))]
		tx.Timeout = to
		if kind == "deverr" {
			faultNext = true
		}
		rc.Step()
		rc.Scenario("%d: [%s] %s (slot open=%t id=%s)", step, kind, tx.Render(), s.open, s.id)
		now := time.Now()
		wasOpen := s.open
		canExpireDuringCall := wasOpen && !s.deadline.After(now.Add(rpcTO+time.Second))
		sets0 := len(w.Dev.Sets)
		res := ExecTx(rc, w, tx, rpcTO)
		settle()
		faultNext = false
		f := map[string]string{"kind": kind, "slot_open": fmt.Sprint(wasOpen)}
		rc.SigAdd(fmt.Sprintf("set-%s|open%t|acc%t", kind, wasOpen, res.Accepted()))
		if wasOpen && !canExpireDuringCall {
			rc.Probe("set-while-open")
			rc.NonTrivial()
			if res.Err == nil {
				rc.Report(sim.Item{Prop: "C06", Clause: "C06.not-exclusive", Step: step, Fields: f, Detail: fmt.Sprintf("TransactionSet %s was accepted while transaction %s is open (deadline in %s)", tx.ID, s.id, s.deadline.Sub(now))})
			}
			if len(w.Dev.Sets) != sets0 {
				rc.Report(sim.Item{Prop: "C06", Clause: "C06.not-exclusive", Step: step, Fields: f, Detail: "device traffic from a refused TransactionSet"})
			}
			return
		}
		if wasOpen {
			// the open transaction may have expired while the call was waiting; resynchronise the model by observation
			// (at the very instant of the deadline the expiry has run as well: settle() lets the timer goroutine finish)
			if !time.Now().Before(s.deadline) || res.Err == nil {
				expire(step)
			} else if res.Err != nil {
				return
			}
		}
		switch kind {
		case "valid":
			if !res.Accepted() {
				if mustAcceptIfFree {
					rc.Report(sim.Item{Prop: "C06", Clause: "C06.wedged", Step: step, Fields: f, Detail: fmt.Sprintf("valid TransactionSet refused although no transaction is open: err=%s intentErrors=%v", normErr(res.Err), res.IntentErrors)})
				}
				return
			}
			pre = m.Clone()
			m.Accept(tx)
			s = slot{open: true, id: tx.ID, deadline: time.Now().Add(time.Duration(to) * time.Second)}
			w.NoteTimer(time.Duration(to) * time.Second)
		case "invalid":
			if res.Err == nil && !res.HasIntentErrors() {
				rc.Report(sim.Item{Prop: "C03", Clause: "C03.invalid-accepted", Step: step, Fields: f, Detail: "an intent violating a length / must constraint was accepted"})
				s = slot{open: true, id: tx.ID, deadline: time.Now().Add(time.Duration(to) * time.Second)}
			}
		case "dryrun":
			if res.Err != nil {
				return
			}
		case "deverr":
			if res.Err == nil {
				// the generated transaction may have produced no device call error (fault not consumed)
				if res.Accepted() {
					pre = m.Clone()
					m.Accept(tx)
					s = slot{open: true, id: tx.ID, deadline: time.Now().Add(time.Duration(to) * time.Second)}
					w.NoteTimer(time.Duration(to) * time.Second)
				}
			}
		}
	}
	pickID := func() (string, string) {
		k := t.Weighted([]int{3, 2, 2})
		switch {
		case k == 0 && s.open:
			return s.id, "match"
		case k == 1 && len(resolved) > 0:
			return resolved[t.Choose(len(resolved))], "stale"
		default:
			return "zz-unknown", "other"
		}
	}
	for step := 0; step < nops; step++ {
		op := t.Weighted([]int{4, 2, 2, 3})
		switch op {
		case 0:
			kind := []string{"valid", "invalid", "dryrun", "deverr"}[t.Weighted([]int{4, 2, 2, 2})]
			doSet(step, kind, !s.open)
		case 1, 2:
			id, rel := pickID()
			name := "Confirm"
			if op == 2 {
				name = "Cancel"
			}
			rc.Step()
			rc.Scenario("%d: %s(%s) [%s] (slot open=%t id=%s)", step, name, id, rel, s.open, s.id)
			if s.open && !time.Now().Before(s.deadline) {
				expire(step)
			}
			sets0 := len(w.Dev.Sets)
			var err error
			if op == 1 {
				_, err = w.Srv.TransactionConfirm(w.Ctx, &sdcpb.TransactionConfirmRequest{DatastoreName: world.DSName, TransactionId: id})
			} else {
				_, err = w.Srv.TransactionCancel(w.Ctx, &sdcpb.TransactionCancelRequest{DatastoreName: world.DSName, TransactionId: id})
			}
			settle()
			rc.Logf("%s %s err=%t", name, id, err != nil)
			f := map[string]string{"op": name, "id_relation": rel, "slot_open": fmt.Sprint(s.open)}
			rc.SigAdd(fmt.Sprintf("%s|%s|open%t|err%t", name, rel, s.open, err != nil))
			dsets := len(w.Dev.Sets) - sets0
			if s.open && id == s.id {
				if err != nil {
					rc.Report(sim.Item{Prop: "C06", Clause: "C06.matching-id-refused", Step: step, Fields: f, Detail: fmt.Sprintf("%s of the open transaction failed: %s", name, normErr(err))})
					continue
				}
				if op == 2 && dsets != 1 {
					rc.Report(sim.Item{Prop: "C06", Clause: "C06.cancel-traffic", Step: step, Fields: f, Detail: fmt.Sprintf("Cancel of the open transaction produced %d device calls (expected exactly the rollback)", dsets)})
				}
				if op == 1 && dsets != 0 {
					rc.Report(sim.Item{Prop: "C06", Clause: "C06.confirm-traffic", Step: step, Fields: f, Detail: fmt.Sprintf("Confirm produced %d device calls", dsets)})
				}
				if op == 2 {
					// the model of live intents is rolled back
					m = pre
				}
				s.open = false
				resolved = append(resolved, id)
				continue
			}
			rc.Probe("wrong-id-" + name)
			if s.open {
				rc.NonTrivial()
			}
			if err == nil {
				rc.Report(sim.Item{Prop: "C06", Clause: "C06.wrong-id-accepted", Step: step, Fields: f, Detail: fmt.Sprintf("%s(%s) succeeded although the open transaction is %q", name, id, s.id)})
			}
			if dsets != 0 {
				rc.Report(sim.Item{Prop: "C06", Clause: "C06.wrong-id-effect", Step: step, Fields: f, Detail: fmt.Sprintf("%s(%s) with a non-matching id caused %d device calls (rollback triggered)", name, id, dsets)})
			}
			if s.open {
				// the open transaction must still expire on time: observe it
				wait := time.Until(s.deadline) + 200*time.Millisecond
				sets1 := len(w.Dev.Sets)
				time.Sleep(wait)
				rc.AddSim(wait.Seconds())
				settle()
				if len(w.Dev.Sets)-sets1 != 1 {
					rc.Report(sim.Item{Prop: "C06", Clause: "C06.timer-lost", Step: step, Fields: f, Detail: fmt.Sprintf("after %s(%s) with a non-matching id the open transaction %s produced %d rollback calls at its deadline (expected 1)", name, id, s.id, len(w.Dev.Sets)-sets1)})
				}
				expire(step)
				m = pre
			}
		case 3:
			var d time.Duration
			if s.open {
				rem := time.Until(s.deadline)
				d = []time.Duration{500 * time.Millisecond, rem - 100*time.Millisecond, rem + 100*time.Millisecond, 2 * rem}[t.Choose(4)]
			} else {
				d = []time.Duration{time.Second, 31 * time.Second}[t.Choose(2)]
			}
			if d < 0 {
				d = 0
			}
			rc.Step()
			rc.Scenario("%d: Wait(%s) (slot open=%t)", step, d, s.open)
			sets0 := len(w.Dev.Sets)
			time.Sleep(d)
			rc.AddSim(d.Seconds())
			settle()
			rc.SigAdd(fmt.Sprintf("wait|open%t|past%t", s.open, s.open && !time.Now().Before(s.deadline)))
			if s.open && !time.Now().Before(s.deadline) {
				if n := len(w.Dev.Sets) - sets0; n != 1 {
					rc.Report(sim.Item{Prop: "C06", Clause: "C06.expiry-traffic", Step: step, Detail: fmt.Sprintf("transaction %s passed its deadline; %d rollback device calls observed (expected 1)", s.id, n)})
				}
				expire(step)
				m = pre
			} else if n := len(w.Dev.Sets) - sets0; n != 0 {
				rc.Report(sim.Item{Prop: "C06", Clause: "C06.spurious-traffic", Step: step, Detail: fmt.Sprintf("%d device calls while idle before any deadline", n)})
			}
		}
	}
	// liveness: whatever happened, a valid transaction is accepted no later than the timeout with no client action
	if s.open {
		d := time.Until(s.deadline) + time.Second
		time.Sleep(d)
		rc.AddSim(d.Seconds())
		settle()
		expire(nops)
		m = pre
	} else {
		time.Sleep(601 * time.Second)
		rc.AddSim(601)
		settle()
	}
	doSet(nops, "valid", true)
}

func init() {
	Register(&sim.Check{
		ID: "C06", Level: "exploration", Run: runC06,
		Rule: "seeded sequences (3-8 ops, thorough up to 14) over {SetTx valid/invalid/dry-run/device-error with timeout 1/5/30/600 s, Confirm(id), Cancel(id) with matching/stale/unknown ids, Wait(d) around the deadline} on the fake clock; every call carries a 2 s simulated RPC deadline. Oracle: transaction-slot model (exclusive, id-scoped, wrong ids have no effect and the timer still fires, rollback traffic exactly once at expiry/cancel) and a final liveness probe: after waiting past the timeout with no client action a valid TransactionSet is accepted. Non-trivial = a SetTx or wrong-id call while a transaction is open; distinct = sequence signature.",
		Real: realCore, Stub: stubCore,
		RequiredProbes: []string{"expiry", "set-while-open", "wrong-id-Confirm", "wrong-id-Cancel", "invalid-foreign-owner"},
		QuickSeconds:   30, ThoroughSeconds: 480,
	})
}
