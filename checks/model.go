package checks

import (
	"fmt"
	"sort"

	"verif/world"
)

// MIntent is a live intent in the merge model (leaves include the key-leaf closure).
type MIntent struct {
	Name   string
	Prio   int32
	Leaves map[string]*MLeaf
}

func (i *MIntent) clone() *MIntent {
	c := &MIntent{Name: i.Name, Prio: i.Prio, Leaves: map[string]*MLeaf{}}
	for k, v := range i.Leaves {
		c.Leaves[k] = v
	}
	return c
}

// Model is the merge model of DESIGN A.1/A.2.
type Model struct {
	SI       *world.SchemaInfo
	Live     map[string]*MIntent
	Ever     map[string]world.Path
	Orphaned map[string]bool
	// OrphanVals: leaves an orphan delete left on the device (the orphaned intent ruled them and no live intent defines them)
	OrphanVals map[string]*MLeaf
	// DevHas, when set, tells whether the device still holds a path: an orphaned leaf is part of the configuration only while
	// it is really there (an aggregated delete of its list entry by another intent takes it along, which the statement leaves open)
	DevHas  func(path string) bool
	Touched map[string]world.Path // list entries some intent ever touched
	R0      map[string]*world.Leaf
	// PrevWinners: choice winners before the transaction being judged (set by Hist.Step; diagnostics for C08 items)
	PrevWinners map[string]string
}

func NewModel(si *world.SchemaInfo) *Model {
	return &Model{SI: si, Live: map[string]*MIntent{}, Ever: map[string]world.Path{}, Orphaned: map[string]bool{}, OrphanVals: map[string]*MLeaf{},
		Touched: map[string]world.Path{}, R0: map[string]*world.Leaf{}}
}

func (m *Model) Clone() *Model {
	c := NewModel(m.SI)
	for k, v := range m.Live {
		c.Live[k] = v.clone()
	}
	for k, v := range m.Ever {
		c.Ever[k] = v
	}
	for k, v := range m.Orphaned {
		c.Orphaned[k] = v
	}
	for k, v := range m.OrphanVals {
		c.OrphanVals[k] = v
	}
	c.DevHas = m.DevHas
	for k, v := range m.Touched {
		c.Touched[k] = v
	}
	for k, v := range m.R0 {
		c.R0[k] = v
	}
	return c
}

func (m *Model) LiveNames() []string {
	ns := make([]string, 0, len(m.Live))
	for n := range m.Live {
		ns = append(ns, n)
	}
	sort.Strings(ns)
	return ns
}

// Ruler returns the live intent with the lowest priority number defining p (ignoring choices).
func (m *Model) Ruler(p string) *MIntent {
	var best *MIntent
	for _, n := range m.LiveNames() {
		i := m.Live[n]
		if _, ok := i.Leaves[p]; ok {
			if best == nil || i.Prio < best.Prio {
				best = i
			}
		}
	}
	return best
}

// Definers returns the live intents defining p sorted by priority.
func (m *Model) Definers(p string) []*MIntent {
	var out []*MIntent
	for _, n := range m.LiveNames() {
		if _, ok := m.Live[n].Leaves[p]; ok {
			out = append(out, m.Live[n])
		}
	}
	sort.Slice(out, func(a, b int) bool { return out[a].Prio < out[b].Prio })
	return out
}

// Accept applies an accepted, non-dry-run transaction to the model.
func (m *Model) Accept(tx *TxSpec) {
	left := map[string]*MLeaf{}
	defer func() {
		// what an orphan delete leaves behind: the values the orphaned intent ruled, where no live intent defines the path now
		for p, l := range left {
			if len(m.Definers(p)) == 0 {
				m.OrphanVals[p] = l
			}
		}
	}()
	for _, is := range tx.Intents {
		old := m.Live[is.Name]
		if is.Delete || len(is.Leaves) == 0 {
			if old != nil && is.Orphan {
				// the statement leaves orphaned paths open: every path of an orphan-deleted intent is
				// unconstrained unless a live intent still defines it (Expected checks live definers first)
				for p, l := range old.Leaves {
					m.Orphaned[p] = true
					if r := m.Ruler(p); r != nil && r.Name == is.Name {
						left[p] = l
					}
				}
			}
			delete(m.Live, is.Name)
			continue
		}
		cl := Closure(m.SI, is.Leaves)
		m.Live[is.Name] = &MIntent{Name: is.Name, Prio: is.Prio, Leaves: cl}
		for k, l := range cl {
			m.Ever[k] = l.Path
			delete(m.Orphaned, k)
			delete(m.OrphanVals, k)
			for _, ep := range l.Path.ListEntryPrefixes() {
				m.Touched[ep.String()] = ep
			}
		}
	}
}

type ExpKind int

const (
	ExpValue ExpKind = iota
	ExpAbsent
	ExpFree
	ExpR0
)

type Expectation struct {
	Kind   ExpKind
	Abs    string
	Ruler  string
	Reason string
}

// choiceWinners computes, per container instance path + choice, the winning case (A.2).
// Returns map "instancePath|choice" -> case.
func (m *Model) choiceWinners() map[string]string {
	type contrib struct{ prio int32 }
	best := map[string]map[string]int32{} // key -> case -> min prio
	for _, n := range m.LiveNames() {
		it := m.Live[n]
		for _, l := range it.Leaves {
			// walk up the path: at every level, is elem i a member of a choice of its parent?
			for i := range l.Path {
				node := m.SI.Node(l.Path[:i+1])
				if node == nil || node.Choice == "" {
					continue
				}
				key := l.Path[:i].String() + "|" + node.Choice
				if best[key] == nil {
					best[key] = map[string]int32{}
				}
				if cur, ok := best[key][node.Case]; !ok || it.Prio < cur {
					best[key][node.Case] = it.Prio
				}
			}
		}
	}
	out := map[string]string{}
	for key, cases := range best {
		cn := make([]string, 0, len(cases))
		for c := range cases {
			cn = append(cn, c)
		}
		sort.Strings(cn)
		w := ""
		var wp int32
		for _, c := range cn {
			if w == "" || cases[c] < wp {
				w, wp = c, cases[c]
			}
		}
		out[key] = w
	}
	return out
}

// losing reports whether leaf path p lies in a losing case of some choice on its way.
func (m *Model) losing(p world.Path, winners map[string]string) bool {
	for i := range p {
		node := m.SI.Node(p[:i+1])
		if node == nil || node.Choice == "" {
			continue
		}
		key := p[:i].String() + "|" + node.Choice
		if w, ok := winners[key]; ok && w != node.Case {
			return true
		}
	}
	return false
}

// Expected computes the oracle expectation for one leaf path (A.1).
func (m *Model) Expected(p world.Path, winners map[string]string) Expectation {
	ps := p.String()
	if !m.losing(p, winners) {
		if defs := m.Definers(ps); len(defs) > 0 {
			return Expectation{Kind: ExpValue, Abs: defs[0].Leaves[ps].Abs, Ruler: defs[0].Name}
		}
	} else if len(m.Definers(ps)) > 0 {
		return Expectation{Kind: ExpAbsent, Reason: "losing-case"}
	}
	if m.Orphaned[ps] {
		return Expectation{Kind: ExpFree, Reason: "orphaned"}
	}
	if _, ok := m.Ever[ps]; ok {
		if n := m.SI.Node(p); n != nil && n.Kind == world.KContainer && n.Presence && m.everBelow(p) {
			// On a device a presence container with descendants cannot lose its presence without losing them.
			// When the marker's last definer leaves while descendants remain, the container legitimately stays and
			// is afterwards indistinguishable from unhandled running config: the marker is left unconstrained.
			return Expectation{Kind: ExpFree, Reason: "presence-with-descendants"}
		}
		return Expectation{Kind: ExpAbsent, Reason: "dead"}
	}
	for _, ep := range p.ListEntryPrefixes() {
		if _, ok := m.Touched[ep.String()]; ok {
			return Expectation{Kind: ExpFree, Reason: "touched-entry"}
		}
	}
	// a presence container that some intent defined is, like a list entry, created and removed as a whole
	for i := 1; i < len(p); i++ {
		if _, ok := m.Ever[p[:i].String()]; ok {
			if n := m.SI.Node(p[:i]); n != nil && n.Kind == world.KContainer && n.Presence {
				return Expectation{Kind: ExpFree, Reason: "touched-presence"}
			}
		}
	}
	if n := m.SI.Node(p); n != nil && n.Choice != "" {
		// a never-defined running leaf that is a member of a choice some intent populates is not constrained by C01
		return Expectation{Kind: ExpFree, Reason: "choice-member"}
	}
	return Expectation{Kind: ExpR0, Reason: "untouched"}
}

// ExpectedIntended: the set of (path|owner|prio|abs) the intended store must hold (C02).
func (m *Model) ExpectedIntended() map[string]bool {
	out := map[string]bool{}
	for _, n := range m.LiveNames() {
		it := m.Live[n]
		for _, l := range it.Leaves {
			out[fmt.Sprintf("%s|%s|%d|%s", l.Path.String(), it.Name, it.Prio, world.NormAbs(l.Abs))] = true
		}
	}
	return out
}

// AllPaths returns the union of paths the oracle looks at.
func (m *Model) AllPaths(dev world.DevState) map[string]world.Path {
	out := map[string]world.Path{}
	for k, l := range dev {
		out[k] = l.Path
	}
	for k, p := range m.Ever {
		out[k] = p
	}
	for k, l := range m.R0 {
		out[k] = l.Path
	}
	return out
}

// everBelow: was any leaf strictly below p ever defined by an intent or part of the initial running config?
func (m *Model) everBelow(p world.Path) bool {
	for _, q := range m.Ever {
		if len(q) > len(p) && q.HasPrefix(p) {
			return true
		}
	}
	for _, l := range m.R0 {
		if len(l.Path) > len(p) && l.Path.HasPrefix(p) {
			return true
		}
	}
	return false
}

// Takeover: the winning case of the choice instance changed to a case to which no intent of the transaction contributes.
func (m *Model) Takeover(key string, winners map[string]string, tx *TxSpec) bool {
	wn := winners[key]
	if wn == "" || m.PrevWinners == nil || m.PrevWinners[key] == wn {
		return false
	}
	for _, is := range tx.Intents {
		it := m.Live[is.Name]
		if it == nil {
			continue
		}
		for _, l := range it.Leaves {
			for i := range l.Path {
				node := m.SI.Node(l.Path[:i+1])
				if node != nil && node.Choice != "" && l.Path[:i].String()+"|"+node.Choice == key && node.Case == wn {
					return false
				}
			}
		}
	}
	return true
}
