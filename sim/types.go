package sim

import (
	"crypto/sha1"
	"encoding/hex"
	"fmt"
	"os"
	"sort"
	"strings"
	"sync"
)

// traceToStderr: VSIM_TRACE=1 prints every event as it happens (the only way to see the events of a run that kills its worker)
var traceToStderr = os.Getenv("VSIM_TRACE") != ""

// Item is one discrepancy produced by an oracle. Known findings are matched per item.
type Item struct {
	Prop   string            `json:"prop"`
	Clause string            `json:"clause"` // e.g. C02.extra-entry
	Step   int               `json:"step"`   // index of the operation after which it was observed
	Fields map[string]string `json:"fields,omitempty"`
	Detail string            `json:"detail"`
	KF     string            `json:"kf,omitempty"` // id of matching open known finding
}

func (i Item) String() string {
	keys := make([]string, 0, len(i.Fields))
	for k := range i.Fields {
		keys = append(keys, k)
	}
	sort.Strings(keys)
	var sb strings.Builder
	fmt.Fprintf(&sb, "%s step=%d", i.Clause, i.Step)
	for _, k := range keys {
		fmt.Fprintf(&sb, " %s=%q", k, i.Fields[k])
	}
	if i.Detail != "" {
		fmt.Fprintf(&sb, " :: %s", i.Detail)
	}
	return sb.String()
}

// Outcome is everything a worker reports about one simulated run.
type Outcome struct {
	Seed       uint64         `json:"seed"`
	Tape       []uint32       `json:"tape"`
	Items      []Item         `json:"items,omitempty"`
	Sig        string         `json:"sig"`
	NonTrivial bool           `json:"nontrivial"`
	SimSeconds float64        `json:"sim_seconds"`
	Steps      int            `json:"steps"`
	Faults     map[string]int `json:"faults,omitempty"`
	Probes     map[string]int `json:"probes,omitempty"`
	Buggify    []string       `json:"buggify,omitempty"`
	Scenario   []string       `json:"scenario,omitempty"` // decoded, human readable
	Log        []string       `json:"log,omitempty"`      // canonical event log (only when requested)
	LogHash    string         `json:"log_hash"`
	HarnessErr string         `json:"harness_err,omitempty"`
	Crashed    string         `json:"crashed,omitempty"`    // filled by the parent when the worker died / hung
	Extra      map[string]int `json:"extra,omitempty"`      // additional counters (interleavings etc.)
	PrevSeeds  []uint64       `json:"prev_seeds,omitempty"` // seeds the dying worker process had run before (crash triage)
	Race       string         `json:"race,omitempty"`       // race detector report captured from the worker's stderr (-race builds)
}

// RunCtx is handed to a check for one run.
type RunCtx struct {
	T       *Tape
	Prop    string
	Tier    string
	KeepLog bool
	Opts    map[string]string

	out    *Outcome
	seq    int
	sig    []string
	hasher []string
	// mu makes the recording methods safe for the free-running legs (several goroutines of one run call them)
	mu sync.Mutex
	// muted: events are still numbered but no longer part of the canonical event log (free-running legs, whose
	// order of events is the Go scheduler's)
	muted bool
}

// MuteLog stops recording events in the canonical event log (they keep getting sequence numbers).
func (rc *RunCtx) MuteLog() { rc.mu.Lock(); rc.muted = true; rc.mu.Unlock() }

func NewRunCtx(t *Tape, prop, tier string, keepLog bool, opts map[string]string) *RunCtx {
	return &RunCtx{T: t, Prop: prop, Tier: tier, KeepLog: keepLog, Opts: opts,
		out: &Outcome{Faults: map[string]int{}, Probes: map[string]int{}, Extra: map[string]int{}}}
}

func (rc *RunCtx) Out() *Outcome { return rc.out }

// Logf appends one event to the canonical event log. Never draws from the tape, never reads a clock.
func (rc *RunCtx) Logf(format string, args ...any) {
	rc.mu.Lock()
	defer rc.mu.Unlock()
	rc.seq++
	if rc.muted {
		return
	}
	line := fmt.Sprintf("%05d ", rc.seq) + fmt.Sprintf(format, args...)
	rc.hasher = append(rc.hasher, line)
	if traceToStderr {
		fmt.Fprintln(os.Stderr, "TRACE "+line)
	}
	if rc.KeepLog {
		rc.out.Log = append(rc.out.Log, line)
	}
}

// Seq returns the global event sequence number (used to stamp porcupine histories).
func (rc *RunCtx) Seq() int { rc.mu.Lock(); defer rc.mu.Unlock(); rc.seq++; return rc.seq }

func (rc *RunCtx) Scenario(format string, args ...any) {
	rc.out.Scenario = append(rc.out.Scenario, fmt.Sprintf(format, args...))
	if traceToStderr {
		fmt.Fprintln(os.Stderr, "TRACE scenario "+fmt.Sprintf(format, args...))
	}
}

func (rc *RunCtx) Probe(name string) { rc.mu.Lock(); rc.out.Probes[name]++; rc.mu.Unlock() }
func (rc *RunCtx) Fault(kind string) { rc.mu.Lock(); rc.out.Faults[kind]++; rc.mu.Unlock() }
func (rc *RunCtx) Count(name string) { rc.mu.Lock(); rc.out.Extra[name]++; rc.mu.Unlock() }
func (rc *RunCtx) Buggify(name string) {
	rc.out.Buggify = append(rc.out.Buggify, name)
}
func (rc *RunCtx) SigAdd(part string) { rc.sig = append(rc.sig, part) }
func (rc *RunCtx) NonTrivial()        { rc.out.NonTrivial = true }
func (rc *RunCtx) AddSim(sec float64) { rc.out.SimSeconds += sec }
func (rc *RunCtx) Step()              { rc.out.Steps++ }

func (rc *RunCtx) Report(it Item) {
	if it.Prop == "" {
		it.Prop = rc.Prop
	}
	rc.Logf("ITEM %s", it.String())
	rc.out.Items = append(rc.out.Items, it)
}

func (rc *RunCtx) HarnessErr(format string, args ...any) {
	if rc.out.HarnessErr == "" {
		rc.out.HarnessErr = fmt.Sprintf(format, args...)
	}
	rc.Logf("HARNESS-ERR %s", fmt.Sprintf(format, args...))
}

func (rc *RunCtx) Finish() *Outcome {
	h := sha1.New()
	for _, s := range rc.sig {
		h.Write([]byte(s))
		h.Write([]byte{0})
	}
	rc.out.Sig = hex.EncodeToString(h.Sum(nil))[:16]
	h2 := sha1.New()
	for _, s := range rc.hasher {
		h2.Write([]byte(s))
		h2.Write([]byte{'\n'})
	}
	rc.out.LogHash = hex.EncodeToString(h2.Sum(nil))[:16]
	rc.out.Tape = append([]uint32(nil), rc.T.Used()...)
	return rc.out
}

// Check describes one property check.
type Check struct {
	ID               string
	Level            string // exploration | fault_enumeration
	Rule             string // how cases are generated and what makes one distinct / non-trivial
	Real             []string
	Stub             []string
	Assume           []string
	NoBubble         bool // run outside a synctest bubble
	HangIsViolation  bool
	CrashIsViolation bool
	NonDeterministic bool // arm-B style checks: excluded from the determinism self-test
	// MapOrderSensitive: the run's event log legitimately depends on Go map iteration order inside data-server
	// (which no seam can seed); the self-test reports divergences for such checks but does not fail on them.
	MapOrderSensitive bool
	// Run executes one simulated run. It is called inside a synctest bubble unless NoBubble.
	Run func(rc *RunCtx)
	// RequiredProbes must be > 0 over a whole batch, else the check exits 2 ("cannot observe").
	RequiredProbes []string
	// Budget
	QuickSeconds    int
	ThoroughSeconds int
	QuickMaxRuns    int
	ThoroughMaxRuns int
}
