package checks

import (
	"context"
	"fmt"
	"os"
	"runtime"
	"runtime/debug"
	"strings"
	"sync"
	"time"

	sdcpb "github.com/sdcio/sdc-protos/sdcpb"

	"verif/sim"
	"verif/world"
)

func runC19(rc *sim.RunCtx) {
	t := rc.T
	h, err := NewHist(rc, HistOpts{Profiles: []string{"core"}, MinTx: 1, MaxTx: 3, Oracles: map[string]bool{}})
	if err != nil {
		rc.HarnessErr("world: %v", err)
		return
	}
	w := h.W
	defer w.Close()
	n := 1 + t.Choose(3)
	for s := 0; s < n; s++ {
		h.Step(s)
	}
	if t.Bool(1, 6) || os.Getenv("VSIM_C19_WRITER") != "" { // the variable forces the writer leg (triage aid)
		c19WriterLeg(rc, w)
		return
	}
	sched := sim.NewSched(rc, 250*time.Millisecond, time.Second, 5*time.Second)
	kind := []string{"subscribe", "getdata", "watchdeviations"}[t.Weighted([]int{5, 3, 3})]
	plan := world.StreamPlan{FailAt: -1, StallAt: -1, CancelDelay: -1}
	mode := []string{"cancel", "send-fail", "stall", "exhaust"}[t.Weighted([]int{4, 4, 2, 1})]
	cancelAt := time.Duration(-1)
	switch mode {
	case "cancel":
		cancelAt = time.Duration(t.Choose(24)) * 250 * time.Millisecond
	case "send-fail":
		plan.FailAt = t.Choose(8)
		plan.FailErr = []string{"rpc error: code = Unavailable desc = transport is closing", "EOF", "rpc error: code = Canceled desc = context canceled"}[t.Choose(3)]
		// the context may also stay alive after the failed Send (e.g. message too large, marshalling error)
		plan.CancelDelay = []time.Duration{0, 100 * time.Millisecond, 2 * time.Second, -1}[t.Choose(4)]
		if plan.CancelDelay < 0 {
			plan.FailErr = []string{"rpc error: code = ResourceExhausted desc = grpc: trying to send message larger than max", "rpc error: code = Internal desc = grpc: error while marshaling"}[t.Choose(2)]
			rc.Probe("send-fail-context-alive")
		}
	case "stall":
		plan.StallAt = t.Choose(6)
		plan.StallFor = []time.Duration{0, 500 * time.Millisecond, 3 * time.Second}[t.Choose(3)]
		cancelAt = time.Duration(2+t.Choose(20)) * 250 * time.Millisecond
	case "exhaust":
		if kind != "getdata" {
			cancelAt = 6 * time.Second
		}
	}
	if t.Bool(1, 4) {
		plan.SlowEvery = 100 * time.Millisecond
	}
	nsubs := 1 + t.Choose(4)
	maxInterval := time.Second
	rc.Scenario("rpc=%s mode=%s cancelAt=%s plan=%+v subs=%d", kind, mode, cancelAt, plan, nsubs)
	rc.SigAdd(fmt.Sprintf("%s|%s|fail%d|stall%d|subs%d|cd%s", kind, mode, plan.FailAt, plan.StallAt, nsubs, plan.CancelDelay))
	rc.Probe("rpc-" + kind)
	rc.Probe("mode-" + mode)
	if kind == "subscribe" && nsubs >= 2 {
		rc.Probe("multi-subscription")
		rc.NonTrivial()
	}
	if mode != "exhaust" {
		rc.NonTrivial()
	}
	root := &sdcpb.Path{Elem: []*sdcpb.PathElem{{Name: "sys"}}}
	k1 := &sdcpb.Path{Elem: []*sdcpb.PathElem{{Name: "k1"}}}
	var returned bool
	var retAt time.Time
	var handlerErr error
	var panicMsg string
	var endEvent time.Time // the later of {context cancelled, data exhausted}
	start := time.Now()
	var cancelFn func()
	var endedAt func() time.Time
	var deviationStop func()
	run := func(f func() error) {
		sched.Go("handler", func() {
			defer func() {
				if r := recover(); r != nil {
					panicMsg = fmt.Sprintf("%v\n%s", r, debug.Stack())
				}
				returned = true
				retAt = time.Now()
			}()
			handlerErr = f()
		})
	}
	switch kind {
	case "getdata":
		st := world.NewFakeStream[*sdcpb.GetDataResponse](w.Ctx, "getdata", plan, rc.Logf)
		st.Yield = sched.Yield
		cancelFn = st.End
		endedAt = func() time.Time {
			// GetData and Subscribe also have to end once the stream failed (a Send error), not only on cancellation
			if kind != "watchdeviations" && !st.FailedAt.IsZero() && (st.EndedAt.IsZero() || st.FailedAt.Before(st.EndedAt)) {
				return st.FailedAt
			}
			return st.EndedAt
		}
		enc := []sdcpb.Encoding{sdcpb.Encoding_STRING, sdcpb.Encoding_PROTO, sdcpb.Encoding_JSON, sdcpb.Encoding_JSON_IETF}[t.Choose(4)]
		req := &sdcpb.GetDataRequest{Name: world.DSName, Path: []*sdcpb.Path{root, k1}[:1+t.Choose(2)], Datastore: &sdcpb.DataStore{Type: sdcpb.Type_MAIN}, Encoding: enc, DataType: sdcpb.DataType_CONFIG}
		run(func() error { return w.Srv.GetData(req, st) })
	case "subscribe":
		st := world.NewFakeStream[*sdcpb.SubscribeResponse](w.Ctx, "subscribe", plan, rc.Logf)
		st.Yield = sched.Yield
		cancelFn = st.End
		endedAt = func() time.Time {
			// GetData and Subscribe also have to end once the stream failed (a Send error), not only on cancellation
			if kind != "watchdeviations" && !st.FailedAt.IsZero() && (st.EndedAt.IsZero() || st.FailedAt.Before(st.EndedAt)) {
				return st.FailedAt
			}
			return st.EndedAt
		}
		req := &sdcpb.SubscribeRequest{Name: world.DSName}
		for i := 0; i < nsubs; i++ {
			iv := time.Duration(1+t.Choose(3)) * time.Second
			if iv > maxInterval {
				maxInterval = iv
			}
			req.Subscription = append(req.Subscription, &sdcpb.Subscription{Path: []*sdcpb.Path{[]*sdcpb.Path{root, k1}[t.Choose(2)]}, SampleInterval: uint64(iv), DataType: sdcpb.DataType_CONFIG})
		}
		run(func() error { return w.Srv.Subscribe(req, st) })
	case "watchdeviations":
		maxInterval = 30 * time.Second
		st := world.NewFakeStream[*sdcpb.WatchDeviationResponse](world.PeerCtx(w.Ctx, "10.0.0.9:999"), "deviations", plan, rc.Logf)
		st.Yield = sched.Yield
		cancelFn = st.End
		endedAt = func() time.Time {
			// GetData and Subscribe also have to end once the stream failed (a Send error), not only on cancellation
			if kind != "watchdeviations" && !st.FailedAt.IsZero() && (st.EndedAt.IsZero() || st.FailedAt.Before(st.EndedAt)) {
				return st.FailedAt
			}
			return st.EndedAt
		}
		dctx, dcancel := contextWithCancel(w)
		deviationStop = dcancel
		go w.DS.DeviationMgr(dctx)
		if cancelAt >= 0 {
			cancelAt += 29 * time.Second // around the first deviation cycle
		}
		run(func() error {
			return w.Srv.WatchDeviations(&sdcpb.WatchDeviationRequest{Name: []string{world.DSName}}, st)
		})
		if cancelAt < 0 && mode != "send-fail" {
			cancelAt = 40 * time.Second
		}
		if mode == "send-fail" && plan.CancelDelay < 0 {
			cancelAt = 40 * time.Second
		}
	}
	if cancelAt < 0 && kind != "getdata" {
		// backstop: every scenario ends with a client cancel, a fault index may never be reached
		// (later than the liveness bound, so that a handler that only ends on cancellation is noticed)
		cancelAt = 25 * time.Second
		if kind == "watchdeviations" {
			cancelAt = 70 * time.Second
		}
	}
	if cancelAt >= 0 {
		sched.Go("client-cancel", func() {
			time.Sleep(cancelAt)
			sched.Yield("cancel")
			rc.Logf("CLIENT cancels")
			cancelFn()
		})
	}
	sched.Fair = func() bool { return endedAt != nil && !endedAt().IsZero() }
	sched.Enable()
	finished := sched.Run(4000)
	sched.Drain()
	if deviationStop != nil {
		deviationStop()
	}
	bound := 2*maxInterval + 5*time.Second
	f := map[string]string{"rpc": kind, "mode": mode, "subs": fmt.Sprint(nsubs)}
	if kind != "subscribe" {
		f["subs"] = "0"
	}
	if panicMsg != "" {
		rc.Report(sim.Item{Prop: "C19", Clause: "C19.panic", Fields: f, Detail: panicMsg})
	}
	if !returned && (kind == "getdata" || !endedAt().IsZero()) {
		rc.Report(sim.Item{Prop: "C19", Clause: "C19.handler-hangs", Fields: f,
			Detail: fmt.Sprintf("%s handler did not return although the client cancelled / the stream failed (simulated %s elapsed, scheduler finished=%t)", kind, time.Since(start), finished)})
		return
	}
	if !returned {
		rc.HarnessErr("scenario without end event")
		return
	}
	endEvent = endedAt()
	if endEvent.IsZero() {
		return
	}
	if lag := retAt.Sub(endEvent); lag > bound {
		ff := copyFields(f)
		rc.Report(sim.Item{Prop: "C19", Clause: "C19.late-return", Fields: ff, Detail: fmt.Sprintf("handler returned %s after the client ended the stream (bound %s)", lag, bound)})
	}
	_ = handlerErr
}

func init() {
	Register(&sim.Check{
		ID: "C19", Level: "exploration", Run: runC19,
		Rule: "after a short history, one streaming RPC (Server.Subscribe with 1-4 subscriptions and 1-3 s intervals, Server.GetData in one of the 4 encodings, Server.WatchDeviations with the real DeviationMgr) runs against a fake server stream whose Send parks under the seeded scheduler and can fail at index k (3 error kinds; context cancelled 0/100 ms/2 s later or never), stall (500 ms/3 s/until cancel) or be slow; the client cancels at a drawn 250 ms tick. Oracle: handler returns within 2 x largest interval + 5 s after the stream ended, no panic, no goroutine left at bubble end. A sixth of the runs are the writer leg: a stream of another client is open (its client not reading), DeleteDataStore of an unknown name is queued, a second streaming RPC starts and its client goes away - its handler must return (no simulated time needed; the leg yields the processor a bounded number of times). Non-trivial = any fault/cancel mode or >=2 subscriptions; distinct = (rpc, mode, indices, #subscriptions).",
		Real: append(append([]string{}, realCore...), "pkg/server GetData/Subscribe/WatchDeviations handlers", "pkg/datastore Get/Subscribe/DeviationMgr/runDeviationUpdate"), Stub: append(append([]string{}, stubCore...), "gRPC server streams (fake Send/Context)"),
		CrashIsViolation: true, HangIsViolation: true,
		RequiredProbes: []string{"rpc-subscribe", "rpc-getdata", "rpc-watchdeviations", "multi-subscription", "mode-send-fail", "mode-cancel", "send-fail-context-alive", "leg-writer-while-streaming"},
		QuickSeconds:   30, ThoroughSeconds: 480,
	})
}

// c19WriterLeg: a healthy long-lived stream A is open, a management call that needs the server's datastore map exclusively
// arrives (DeleteDataStore of a name that does not exist), then a second streaming RPC B starts and its client goes away.
// B's handler must return although A is still open. Nothing in this leg needs simulated time to pass: the goroutines only
// have to be scheduled, so the leg yields the processor a bounded number of times instead of sleeping (a handler that is
// queued on a lock is not "durably blocked" for testing/synctest, the fake clock would never advance).
func c19WriterLeg(rc *sim.RunCtx, w *world.World) {
	t := rc.T
	rc.Probe("leg-writer-while-streaming")
	rc.NonTrivial()
	root := &sdcpb.Path{Elem: []*sdcpb.PathElem{{Name: "sys"}}}
	spinUntil := func(done func() bool, n int) bool {
		for i := 0; i < n; i++ {
			if done() {
				return true
			}
			runtime.Gosched()
		}
		return done()
	}
	var mu sync.Mutex
	finished := map[string]bool{}
	isDone := func(k string) func() bool {
		return func() bool { mu.Lock(); defer mu.Unlock(); return finished[k] }
	}
	start := func(name, kind string, stall bool) (end func()) {
		plan := world.StreamPlan{FailAt: -1, StallAt: -1, CancelDelay: -1}
		if stall {
			plan.StallAt = 0 // the client stops reading at the first message and stays connected
		}
		fin := func() {
			_ = recover()
			mu.Lock()
			finished[name] = true
			mu.Unlock()
		}
		switch kind {
		case "getdata":
			st := world.NewFakeStream[*sdcpb.GetDataResponse](w.Ctx, name, plan, nil)
			go func() {
				defer fin()
				w.Srv.GetData(&sdcpb.GetDataRequest{Name: world.DSName, Path: []*sdcpb.Path{root}, Datastore: &sdcpb.DataStore{Type: sdcpb.Type_MAIN}, Encoding: sdcpb.Encoding_STRING, DataType: sdcpb.DataType_CONFIG}, st)
			}()
			return st.End
		case "subscribe":
			st := world.NewFakeStream[*sdcpb.SubscribeResponse](w.Ctx, name, plan, nil)
			go func() {
				defer fin()
				w.Srv.Subscribe(&sdcpb.SubscribeRequest{Name: world.DSName, Subscription: []*sdcpb.Subscription{{Path: []*sdcpb.Path{root}, SampleInterval: uint64(time.Second), DataType: sdcpb.DataType_CONFIG}}}, st)
			}()
			return st.End
		default:
			st := world.NewFakeStream[*sdcpb.WatchDeviationResponse](world.PeerCtx(w.Ctx, map[string]string{"A": "10.0.0.9:1001", "B": "10.0.0.9:1002"}[name]), name, plan, nil)
			go func() {
				defer fin()
				w.Srv.WatchDeviations(&sdcpb.WatchDeviationRequest{Name: []string{world.DSName}}, st)
			}()
			return st.End
		}
	}
	kinds := []string{"getdata", "subscribe", "watchdeviations"}
	kindA := kinds[t.Choose(3)]
	kindB := kinds[t.Choose(3)]
	rc.Scenario("stream A=%s (open, client not reading) ; DeleteDataStore(nosuch) ; stream B=%s whose client goes away", kindA, kindB)
	rc.SigAdd("writer|" + kindA + "|" + kindB)
	endA := start("A", kindA, true)
	spinUntil(func() bool { return false }, 300) // let A get going
	if kindA == "watchdeviations" && t.Bool(1, 2) {
		// the deviation manager runs and its first cycle meets watcher A, whose client does not read (nobody waits for a
		// lock yet, so simulated time may pass)
		rc.Probe("leg-writer-deviation-cycle")
		dctx, dcancel := contextWithCancel(w)
		mgrDone := make(chan struct{})
		go func() {
			defer close(mgrDone)
			w.DS.DeviationMgr(dctx)
		}()
		// The manager is stopped between two cycles and is gone before the run ends. (Cancelling it in the middle of a cycle
		// leaves a goroutine of the cache library behind - ReadKeys keeps sending keys nobody reads any more - which is about
		// the manager's own context, not about a client's RPC; the property does not speak of it.)
		defer func() {
			time.Sleep(time.Second)
			dcancel()
			<-mgrDone
		}()
		time.Sleep(31 * time.Second)
		rc.AddSim(31)
		spinUntil(func() bool { return false }, 300)
	}
	go func() {
		w.Srv.DeleteDataStore(w.Ctx, &sdcpb.DeleteDataStoreRequest{Name: "nosuch"})
		mu.Lock()
		finished["W"] = true
		mu.Unlock()
	}()
	spinUntil(isDone("W"), 300)
	endB := start("B", kindB, false)
	spinUntil(func() bool { return false }, 100)
	endB()
	f := map[string]string{"rpc": kindB, "mode": "writer-queued", "open_stream": kindA, "subs": "0"}
	// Evidence from the goroutine dump of this bubble (a positive sign, other than "not finished yet", which a busy machine
	// produces as well): "queued" = a goroutine of data-server waits for a read/write lock and no goroutine that is inside a
	// data-server call can still run (so nobody is going to release it); "contended" = somebody waits but a holder can run;
	// "free" = nobody waits for that lock.
	lockState := func() (string, string) {
		buf := make([]byte, 4<<20)
		buf = buf[:runtime.Stack(buf, true)]
		blocks := strings.Split(string(buf), "\n\n")
		bubble := ""
		if k := strings.Index(blocks[0], "synctest bubble "); k >= 0 {
			bubble = strings.SplitN(blocks[0][k:], "]", 2)[0]
		}
		const srv = "github.com/sdcio/data-server/pkg/"
		waiter, canRun := "", false
		for bi, g := range blocks {
			lines := strings.Split(g, "\n")
			if bi == 0 || bubble == "" || !strings.Contains(lines[0], bubble+"]") || !strings.Contains(g, srv) {
				continue
			}
			if strings.Contains(lines[0], "[runnable") || strings.Contains(lines[0], "[running") {
				canRun = true
				continue
			}
			for i := 1; i+2 < len(lines); i += 2 {
				if (strings.HasPrefix(lines[i], "sync.(*RWMutex).RLock(") || strings.HasPrefix(lines[i], "sync.(*RWMutex).Lock(")) && strings.HasPrefix(lines[i+2], srv) {
					fn := strings.TrimPrefix(lines[i+2], srv)
					if j := strings.LastIndex(fn, "("); j >= 0 {
						fn = fn[:j]
					}
					waiter = fn
				}
			}
		}
		switch {
		case waiter == "":
			return "free", ""
		case canRun:
			return "contended", waiter
		}
		return "queued", waiter
	}
	verdict := ""
	for round := 0; round < 5000 && verdict == ""; round++ {
		if spinUntil(isDone("B"), 2000) {
			verdict = "returned"
			break
		}
		switch st, who := lockState(); st {
		case "queued":
			// twice in a row, so that a goroutine that was between two states is not misread
			spinUntil(isDone("B"), 2000)
			if st2, _ := lockState(); st2 == "queued" && !isDone("B")() {
				f["queued"] = who
				rc.Report(sim.Item{Prop: "C19", Clause: "C19.handler-hangs", Fields: f,
					Detail: fmt.Sprintf("%s handler did not return after its client went away while a %s stream of another client is open and a DeleteDataStore call was issued (writer finished=%t): %s waits for the lock of the datastore map and no handler that could release it can run", kindB, kindA, isDone("W")(), who)})
				verdict = "queued"
			}
		case "free":
			// nobody waits for the lock, so simulated time may pass (the handler may need a tick to notice)
			for i := 0; i < 30 && !isDone("B")(); i++ {
				time.Sleep(time.Second)
				rc.AddSim(1)
			}
			if !isDone("B")() {
				rc.Report(sim.Item{Prop: "C19", Clause: "C19.handler-hangs", Fields: f,
					Detail: fmt.Sprintf("%s handler did not return within 30 simulated seconds after its client went away (open %s stream of another client, DeleteDataStore issued, writer finished=%t)", kindB, kindA, isDone("W")())})
				verdict = "late"
			} else {
				verdict = "returned"
			}
		}
	}
	if verdict == "" {
		rc.HarnessErr("writer leg inconclusive: lock contended for 5000 rounds")
	}
	// let everything drain
	endA()
	all := func() bool { return isDone("A")() && isDone("B")() && isDone("W")() }
	for round := 0; round < 5000 && !all(); round++ {
		if spinUntil(all, 2000) {
			break
		}
		if st, _ := lockState(); st == "free" {
			time.Sleep(time.Second)
		}
	}
	if !spinUntil(all, 400000) {
		rc.HarnessErr("writer leg does not drain: A=%t B=%t W=%t", isDone("A")(), isDone("B")(), isDone("W")())
	}
	if os.Getenv("VSIM_C19_DUMP") != "" {
		buf := make([]byte, 4<<20)
		buf = buf[:runtime.Stack(buf, true)]
		rc.Logf("DUMP-AT-END %s", string(buf))
	}
}

func contextWithCancel(w *world.World) (ctx2 context.Context, cancel func()) {
	return context.WithCancel(w.Ctx)
}
