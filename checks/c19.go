package checks

import (
	"context"
	"fmt"
	"runtime/debug"
	"time"

	sdcpb "github.com/sdcio/sdc-protos/sdcpb"

	"verif/sim"
	"verif/world"
)

func runC19(rc *sim.RunCtx) {
	t := rc.T
	h, err := NewHist(rc, HistOpts{Profiles: []string{"core"}, MinTx: 1, MaxTx: 3, Oracles: map[string]bool{}})
	if err != nil {
		rc.HarnessErr("world: %v", err)
		return
	}
	w := h.W
	defer w.Close()
	n := 1 + t.Choose(3)
	for s := 0; s < n; s++ {
		h.Step(s)
	}
	sched := sim.NewSched(rc, 250*time.Millisecond, time.Second, 5*time.Second)
	kind := []string{"subscribe", "getdata", "watchdeviations"}[t.Weighted([]int{5, 3, 3})]
	plan := world.StreamPlan{FailAt: -1, StallAt: -1, CancelDelay: -1}
	mode := []string{"cancel", "send-fail", "stall", "exhaust"}[t.Weighted([]int{4, 4, 2, 1})]
	cancelAt := time.Duration(-1)
	switch mode {
	case "cancel":
		cancelAt = time.Duration(t.Choose(24)) * 250 * time.Millisecond
	case "send-fail":
		plan.FailAt = t.Choose(8)
		plan.FailErr = []string{"rpc error: code = Unavailable desc = transport is closing", "EOF", "rpc error: code = Canceled desc = context canceled"}[t.Choose(3)]
		// the context may also stay alive after the failed Send (e.g. message too large, marshalling error)
		plan.CancelDelay = []time.Duration{0, 100 * time.Millisecond, 2 * time.Second, -1}[t.Choose(4)]
		if plan.CancelDelay < 0 {
			plan.FailErr = []string{"rpc error: code = ResourceExhausted desc = grpc: trying to send message larger than max", "rpc error: code = Internal desc = grpc: error while marshaling"}[t.Choose(2)]
			rc.Probe("send-fail-context-alive")
		}
	case "stall":
		plan.StallAt = t.Choose(6)
		plan.StallFor = []time.Duration{0, 500 * time.Millisecond, 3 * time.Second}[t.Choose(3)]
		cancelAt = time.Duration(2+t.Choose(20)) * 250 * time.Millisecond
	case "exhaust":
		if kind != "getdata" {
			cancelAt = 6 * time.Second
		}
	}
	if t.Bool(1, 4) {
		plan.SlowEvery = 100 * time.Millisecond
	}
	nsubs := 1 + t.Choose(4)
	maxInterval := time.Second
	rc.Scenario("rpc=%s mode=%s cancelAt=%s plan=%+v subs=%d", kind, mode, cancelAt, plan, nsubs)
	rc.SigAdd(fmt.Sprintf("%s|%s|fail%d|stall%d|subs%d|cd%s", kind, mode, plan.FailAt, plan.StallAt, nsubs, plan.CancelDelay))
	rc.Probe("rpc-" + kind)
	rc.Probe("mode-" + mode)
	if kind == "subscribe" && nsubs >= 2 {
		rc.Probe("multi-subscription")
		rc.NonTrivial()
	}
	if mode != "exhaust" {
		rc.NonTrivial()
	}
	root := &sdcpb.Path{Elem: []*sdcpb.PathElem{{Name: "sys"}}}
	k1 := &sdcpb.Path{Elem: []*sdcpb.PathElem{{Name: "k1"}}}
	var returned bool
	var retAt time.Time
	var handlerErr error
	var panicMsg string
	var endEvent time.Time // the later of {context cancelled, data exhausted}
	start := time.Now()
	var cancelFn func()
	var endedAt func() time.Time
	var deviationStop func()
	run := func(f func() error) {
		sched.Go("handler", func() {
			defer func() {
				if r := recover(); r != nil {
					panicMsg = fmt.Sprintf("%v\n%s", r, debug.Stack())
				}
				returned = true
				retAt = time.Now()
			}()
			handlerErr = f()
		})
	}
	switch kind {
	case "getdata":
		st := world.NewFakeStream[*sdcpb.GetDataResponse](w.Ctx, "getdata", plan, rc.Logf)
		st.Yield = sched.Yield
		cancelFn = st.End
		endedAt = func() time.Time {
			// GetData and Subscribe also have to end once the stream failed (a Send error), not only on cancellation
			if kind != "watchdeviations" && !st.FailedAt.IsZero() && (st.EndedAt.IsZero() || st.FailedAt.Before(st.EndedAt)) {
				return st.FailedAt
			}
			return st.EndedAt
		}
		enc := []sdcpb.Encoding{sdcpb.Encoding_STRING, sdcpb.Encoding_PROTO, sdcpb.Encoding_JSON, sdcpb.Encoding_JSON_IETF}[t.Choose(4)]
		req := &sdcpb.GetDataRequest{Name: world.DSName, Path: []*sdcpb.Path{root, k1}[:1+t.Choose(2)], Datastore: &sdcpb.DataStore{Type: sdcpb.Type_MAIN}, Encoding: enc, DataType: sdcpb.DataType_CONFIG}
		run(func() error { return w.Srv.GetData(req, st) })
	case "subscribe":
		st := world.NewFakeStream[*sdcpb.SubscribeResponse](w.Ctx, "subscribe", plan, rc.Logf)
		st.Yield = sched.Yield
		cancelFn = st.End
		endedAt = func() time.Time {
			// GetData and Subscribe also have to end once the stream failed (a Send error), not only on cancellation
			if kind != "watchdeviations" && !st.FailedAt.IsZero() && (st.EndedAt.IsZero() || st.FailedAt.Before(st.EndedAt)) {
				return st.FailedAt
			}
			return st.EndedAt
		}
		req := &sdcpb.SubscribeRequest{Name: world.DSName}
		for i := 0; i < nsubs; i++ {
			iv := time.Duration(1+t.Choose(3)) * time.Second
			if iv > maxInterval {
				maxInterval = iv
			}
			req.Subscription = append(req.Subscription, &sdcpb.Subscription{Path: []*sdcpb.Path{[]*sdcpb.Path{root, k1}[t.Choose(2)]}, SampleInterval: uint64(iv), DataType: sdcpb.DataType_CONFIG})
		}
		run(func() error { return w.Srv.Subscribe(req, st) })
	case "watchdeviations":
		maxInterval = 30 * time.Second
		st := world.NewFakeStream[*sdcpb.WatchDeviationResponse](world.PeerCtx(w.Ctx, "10.0.0.9:999"), "deviations", plan, rc.Logf)
		st.Yield = sched.Yield
		cancelFn = st.End
		endedAt = func() time.Time {
			// GetData and Subscribe also have to end once the stream failed (a Send error), not only on cancellation
			if kind != "watchdeviations" && !st.FailedAt.IsZero() && (st.EndedAt.IsZero() || st.FailedAt.Before(st.EndedAt)) {
				return st.FailedAt
			}
			return st.EndedAt
		}
		dctx, dcancel := contextWithCancel(w)
		deviationStop = dcancel
		go w.DS.DeviationMgr(dctx)
		if cancelAt >= 0 {
			cancelAt += 29 * time.Second // around the first deviation cycle
		}
		run(func() error {
			return w.Srv.WatchDeviations(&sdcpb.WatchDeviationRequest{Name: []string{world.DSName}}, st)
		})
		if cancelAt < 0 && mode != "send-fail" {
			cancelAt = 40 * time.Second
		}
		if mode == "send-fail" && plan.CancelDelay < 0 {
			cancelAt = 40 * time.Second
		}
	}
	if cancelAt < 0 && kind != "getdata" {
		// backstop: every scenario ends with a client cancel, a fault index may never be reached
		// (later than the liveness bound, so that a handler that only ends on cancellation is noticed)
		cancelAt = 25 * time.Second
		if kind == "watchdeviations" {
			cancelAt = 70 * time.Second
		}
	}
	if cancelAt >= 0 {
		sched.Go("client-cancel", func() {
			time.Sleep(cancelAt)
			sched.Yield("cancel")
			rc.Logf("CLIENT cancels")
			cancelFn()
		})
	}
	sched.Fair = func() bool { return endedAt != nil && !endedAt().IsZero() }
	sched.Enable()
	finished := sched.Run(4000)
	sched.Drain()
	if deviationStop != nil {
		deviationStop()
	}
	bound := 2*maxInterval + 5*time.Second
	f := map[string]string{"rpc": kind, "mode": mode, "subs": fmt.Sprint(nsubs)}
	if kind != "subscribe" {
		f["subs"] = "0"
	}
	if panicMsg != "" {
		rc.Report(sim.Item{Prop: "C19", Clause: "C19.panic", Fields: f, Detail: panicMsg})
	}
	if !returned && (kind == "getdata" || !endedAt().IsZero()) {
		rc.Report(sim.Item{Prop: "C19", Clause: "C19.handler-hangs", Fields: f,
			Detail: fmt.Sprintf("%s handler did not return although the client cancelled / the stream failed (simulated %s elapsed, scheduler finished=%t)", kind, time.Since(start), finished)})
		return
	}
	if !returned {
		rc.HarnessErr("scenario without end event")
		return
	}
	endEvent = endedAt()
	if endEvent.IsZero() {
		return
	}
	if lag := retAt.Sub(endEvent); lag > bound {
		ff := copyFields(f)
		rc.Report(sim.Item{Prop: "C19", Clause: "C19.late-return", Fields: ff, Detail: fmt.Sprintf("handler returned %s after the client ended the stream (bound %s)", lag, bound)})
	}
	_ = handlerErr
}

func init() {
	Register(&sim.Check{
		ID: "C19", Level: "exploration", Run: runC19,
		Rule: "after a short history, one streaming RPC (Server.Subscribe with 1-4 subscriptions and 1-3 s intervals, Server.GetData in one of the 4 encodings, Server.WatchDeviations with the real DeviationMgr) runs against a fake server stream whose Send parks under the seeded scheduler and can fail at index k (3 error kinds; context cancelled 0/100 ms/2 s later or never), stall (500 ms/3 s/until cancel) or be slow; the client cancels at a drawn 250 ms tick. Oracle: handler returns within 2 x largest interval + 5 s after the stream ended, no panic, no goroutine left at bubble end. Non-trivial = any fault/cancel mode or >=2 subscriptions; distinct = (rpc, mode, indices, #subscriptions).",
		Real: append(append([]string{}, realCore...), "pkg/server GetData/Subscribe/WatchDeviations handlers", "pkg/datastore Get/Subscribe/DeviationMgr/runDeviationUpdate"), Stub: append(append([]string{}, stubCore...), "gRPC server streams (fake Send/Context)"),
		CrashIsViolation: true, HangIsViolation: true,
		RequiredProbes: []string{"rpc-subscribe", "rpc-getdata", "rpc-watchdeviations", "multi-subscription", "mode-send-fail", "mode-cancel", "send-fail-context-alive"},
		QuickSeconds:   30, ThoroughSeconds: 480,
	})
}

func contextWithCancel(w *world.World) (ctx2 context.Context, cancel func()) {
	return context.WithCancel(w.Ctx)
}
