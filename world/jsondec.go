package world

import (
	"encoding/json"
	"fmt"
	"sort"
	"strings"
)

// DecodeJSON turns a JSON / JSON_IETF document rooted at base into leaves, driven by the schema table.
// Member names may carry a module prefix ("mod:name"); unknown members are reported as errors.
func (si *SchemaInfo) DecodeJSON(base Path, doc []byte) ([]*Leaf, error) {
	dec := json.NewDecoder(strings.NewReader(string(doc)))
	dec.UseNumber()
	var v any
	if err := dec.Decode(&v); err != nil {
		return nil, fmt.Errorf("json: %w", err)
	}
	return si.DecodeJSONValue(base, v)
}

func (si *SchemaInfo) DecodeJSONValue(base Path, v any) ([]*Leaf, error) {
	var out []*Leaf
	err := si.decodeJSONAt(base, si.Node(base), v, &out)
	return out, err
}

func stripPrefix(name string) string {
	if i := strings.Index(name, ":"); i >= 0 {
		return name[i+1:]
	}
	return name
}

func (si *SchemaInfo) decodeJSONAt(p Path, n *Node, v any, out *[]*Leaf) error {
	if n == nil {
		return fmt.Errorf("json: no schema node for %s", p)
	}
	switch n.Kind {
	case KLeaf:
		*out = append(*out, &Leaf{Path: p.Clone(), Abs: AbsJSONValue(n.Type, v)})
		return nil
	case KLeafList:
		*out = append(*out, &Leaf{Path: p.Clone(), Abs: AbsJSONValue(n.Type, v)})
		return nil
	case KList:
		// p addresses either the list (value = array of entries) or one entry (value = object)
		last := p[len(p)-1]
		if len(last.Keys) == len(n.Keys) && len(n.Keys) > 0 {
			m, ok := v.(map[string]any)
			if !ok {
				return fmt.Errorf("json: list entry %s is not an object: %v", p, v)
			}
			return si.decodeJSONObject(p, n, m, out)
		}
		arr, ok := v.([]any)
		if !ok {
			if m, isObj := v.(map[string]any); isObj {
				arr = []any{m}
			} else {
				return fmt.Errorf("json: list %s is not an array: %v", p, v)
			}
		}
		for _, e := range arr {
			m, ok := e.(map[string]any)
			if !ok {
				return fmt.Errorf("json: entry of list %s is not an object: %v", p, e)
			}
			ep := p.Clone()
			ep[len(ep)-1].Keys = map[string]string{}
			for k, ov := range last.Keys {
				ep[len(ep)-1].Keys[k] = ov
			}
			for _, k := range n.Keys {
				kv, ok := jsonMember(m, k)
				if !ok {
					if _, have := ep[len(ep)-1].Keys[k]; have {
						continue
					}
					return fmt.Errorf("json: entry of list %s lacks key %s", p, k)
				}
				ep[len(ep)-1].Keys[k] = fmt.Sprint(jsonLex(kv))
			}
			if err := si.decodeJSONObject(ep, n, m, out); err != nil {
				return err
			}
		}
		return nil
	default: // container (or root)
		m, ok := v.(map[string]any)
		if !ok {
			if v == nil {
				return nil
			}
			return fmt.Errorf("json: container %s is not an object: %v", p, v)
		}
		if len(m) == 0 && n.Presence {
			*out = append(*out, &Leaf{Path: p.Clone(), Abs: "empty"})
			return nil
		}
		return si.decodeJSONObject(p, n, m, out)
	}
}

func jsonLex(v any) any {
	if n, ok := v.(json.Number); ok {
		return n.String()
	}
	return v
}

func jsonMember(m map[string]any, name string) (any, bool) {
	for k, v := range m {
		if stripPrefix(k) == name {
			return v, true
		}
	}
	return nil, false
}

func (si *SchemaInfo) decodeJSONObject(p Path, n *Node, m map[string]any, out *[]*Leaf) error {
	names := make([]string, 0, len(m))
	for k := range m {
		names = append(names, k)
	}
	sort.Strings(names)
	for _, k := range names {
		name := stripPrefix(k)
		cp := p.Child(name)
		cn := si.Node(cp)
		if cn == nil {
			return fmt.Errorf("json: unknown member %q under %s", k, p)
		}
		if err := si.decodeJSONAt(cp, cn, m[k], out); err != nil {
			return err
		}
	}
	return nil
}
