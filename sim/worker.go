package sim

import (
	"bufio"
	"encoding/json"
	"fmt"
	"os"
	"runtime"
	"runtime/debug"
	"strings"
	"testing"
	"testing/synctest"
	"time"
)

// Request is one unit of work sent from the parent to a worker.
type Request struct {
	Prop    string            `json:"prop"`
	Tier    string            `json:"tier"`
	Seed    uint64            `json:"seed"`
	Tape    []uint32          `json:"tape,omitempty"`
	Replay  bool              `json:"replay"`
	KeepLog bool              `json:"keeplog"`
	Opts    map[string]string `json:"opts,omitempty"`
	// DumpTape: file that receives the tape values as they are consumed (crash triage)
	DumpTape string `json:"dump_tape,omitempty"`
}

// RunOne executes one simulated run (inside a synctest bubble unless the check opts out).
func RunOne(t *testing.T, c *Check, req *Request) *Outcome {
	var tape *Tape
	if req.Replay {
		tape = ReplayTape(req.Tape)
	} else {
		tape = NewTape(req.Seed)
	}
	if req.DumpTape != "" {
		tape.DumpTo(req.DumpTape)
	}
	rc := NewRunCtx(tape, req.Prop, req.Tier, req.KeepLog, req.Opts)
	body := func() {
		defer func() {
			if r := recover(); r != nil {
				rc.Logf("PANIC in run goroutine: %v", r)
				st := debug.Stack()
				rc.Report(Item{Prop: "C20", Clause: "C20.panic", Detail: fmt.Sprintf("panic: %v\n%s", r, trimStack(st)), Fields: map[string]string{"where": "run-goroutine", "frame": sutFrame(st), "panic": fmt.Sprint(r)}})
			}
		}()
		c.Run(rc)
	}
	if c.NoBubble {
		body()
	} else {
		func() {
			defer func() {
				if r := recover(); r != nil {
					msg := fmt.Sprint(r)
					rc.Logf("BUBBLE-END %s", msg)
					if strings.Contains(msg, "deadlock") {
						// which goroutines of the run are left? (durably blocked ones inside bubbles, without the storage engine's)
						buf := make([]byte, 4<<20)
						buf = buf[:runtime.Stack(buf, true)]
						left := []string{}
						for _, g := range strings.Split(string(buf), "\n\n") {
							lines := strings.Split(g, "\n")
							if !strings.Contains(lines[0], "synctest bubble") || !strings.Contains(lines[0], "durable") ||
								strings.Contains(g, "dgraph-io/") || strings.Contains(g, "impl_badgerdb") || strings.Contains(g, "testingSynctestTest") {
								continue
							}
							if len(lines) > 9 {
								lines = lines[:9]
							}
							left = append(left, strings.Join(lines, "\n"))
						}
						if len(left) > 6 {
							left = left[:6]
						}
						rc.Report(Item{Clause: req.Prop + ".leak", Detail: "synctest: " + msg + "\n" + strings.Join(left, "\n\n"), Fields: map[string]string{"where": "bubble-end"}})
					} else {
						rc.HarnessErr("bubble panic: %v", msg)
					}
				}
			}()
			synctest.Test(t, func(t *testing.T) { body() })
		}()
	}
	out := rc.Finish()
	out.Seed = req.Seed
	return out
}

func trimStack(b []byte) string {
	lines := strings.Split(string(b), "\n")
	if len(lines) > 40 {
		lines = lines[:40]
	}
	return strings.Join(lines, "\n")
}

// WorkerLoop reads requests from stdin and writes BEGIN/RESULT lines to fd 3.
func WorkerLoop(t *testing.T, get func(string) *Check) {
	out := os.NewFile(3, "results")
	if out == nil {
		t.Fatal("worker: fd 3 missing")
	}
	w := bufio.NewWriter(out)
	sc := bufio.NewScanner(os.Stdin)
	sc.Buffer(make([]byte, 1<<20), 64<<20)
	for sc.Scan() {
		line := sc.Text()
		if line == "" {
			continue
		}
		var req Request
		if err := json.Unmarshal([]byte(line), &req); err != nil {
			fmt.Fprintf(w, "ERROR bad request: %v\n", err)
			w.Flush()
			continue
		}
		c := get(req.Prop)
		if c == nil {
			fmt.Fprintf(w, "ERROR unknown property %s\n", req.Prop)
			w.Flush()
			continue
		}
		fmt.Fprintf(w, "BEGIN %d\n", req.Seed)
		w.Flush()
		start := time.Now()
		res := RunOne(t, c, &req)
		_ = start
		b, err := json.Marshal(res)
		if err != nil {
			fmt.Fprintf(w, "ERROR marshal: %v\n", err)
		} else {
			w.WriteString("RESULT ")
			w.Write(b)
			w.WriteString("\n")
		}
		w.Flush()
	}
}

// sutFrame returns the innermost data-server function on a stack trace.
func sutFrame(st []byte) string {
	lines := strings.Split(string(st), "\n")
	for i := 0; i+1 < len(lines); i++ {
		if strings.Contains(lines[i+1], "/repo/pkg/") && !strings.HasPrefix(lines[i], "\t") {
			f := lines[i]
			if j := strings.LastIndex(f, "("); j > 0 {
				f = f[:j]
			}
			return strings.TrimPrefix(f, "github.com/sdcio/data-server/pkg/")
		}
	}
	return "?"
}
