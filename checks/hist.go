package checks

import (
	"context"
	"encoding/json"
	"fmt"
	"sort"
	"strings"
	"time"

	sdcpb "github.com/sdcio/sdc-protos/sdcpb"

	"verif/sim"
	"verif/world"
)

// IntentSpec / TxSpec: the operation language for transactions (DESIGN 3.6).
type IntentSpec struct {
	Name   string
	Prio   int32
	Leaves []*MLeaf // explicit leaves (closure is implied)
	Delete bool
	Orphan bool
	Edit   string // create|change|reprio|shrink|delete|orphan|resubmit|grow
	Form   string // typed|string|json|json_ietf
}

type TxSpec struct {
	ID      string
	Intents []IntentSpec
	Replace *IntentSpec
	DryRun  bool
	Timeout uint32 // seconds; 0 = server default
}

func (is IntentSpec) Render() string {
	ls := make([]string, 0, len(is.Leaves))
	for _, l := range is.Leaves {
		ls = append(ls, l.Path.String()+"="+l.Lex)
	}
	sort.Strings(ls)
	fl := ""
	if is.Delete {
		fl += " DELETE"
	}
	if is.Orphan {
		fl += " ORPHAN"
	}
	return fmt.Sprintf("%s(prio=%d,%s,%s%s){%s}", is.Name, is.Prio, is.Edit, is.Form, fl, strings.Join(ls, "; "))
}

func (tx *TxSpec) Render() string {
	parts := []string{}
	for _, i := range tx.Intents {
		parts = append(parts, i.Render())
	}
	s := fmt.Sprintf("SetTx %s dry=%t timeout=%d: %s", tx.ID, tx.DryRun, tx.Timeout, strings.Join(parts, " + "))
	if tx.Replace != nil {
		s += " REPLACE " + tx.Replace.Render()
	}
	return s
}

// buildJSON renders leaves below a common ancestor as a JSON document (RFC 7951-ish when ietf).
func buildJSON(si *world.SchemaInfo, leaves []*MLeaf, ietf bool) ([]byte, error) {
	root := map[string]any{}
	for _, l := range leaves {
		cur := root
		var parentMod string = ""
		for i, e := range l.Path {
			node := si.Node(l.Path[:i+1])
			name := e.Name
			if ietf && node.Module != parentMod {
				name = node.Module + ":" + e.Name
			}
			parentMod = node.Module
			last := i == len(l.Path)-1
			switch node.Kind {
			case world.KContainer:
				if last {
					if _, ok := cur[name]; !ok {
						cur[name] = map[string]any{}
					}
					break
				}
				nx, ok := cur[name].(map[string]any)
				if !ok {
					nx = map[string]any{}
					cur[name] = nx
				}
				cur = nx
			case world.KList:
				arr, _ := cur[name].([]any)
				var entry map[string]any
				for _, a := range arr {
					am := a.(map[string]any)
					match := true
					for k, v := range e.Keys {
						if fmt.Sprint(am[k]) != v {
							match = false
						}
					}
					if match {
						entry = am
					}
				}
				if entry == nil {
					entry = map[string]any{}
					for k, v := range e.Keys {
						entry[k] = jsonScalar(si.Node(l.Path[:i+1].Child(k)), v, ietf)
					}
					arr = append(arr, entry)
					cur[name] = arr
				}
				cur = entry
			case world.KLeaf:
				cur[name] = jsonScalar(node, l.Lex, ietf)
			case world.KLeafList:
				arr := []any{}
				if l.Lex != "" {
					for _, x := range strings.Split(l.Lex, ",") {
						arr = append(arr, jsonScalar(node, x, ietf))
					}
				}
				cur[name] = arr
			}
		}
	}
	return json.Marshal(root)
}

func jsonScalar(n *world.Node, lex string, ietf bool) any {
	switch n.Type.GetType() {
	case "uint8", "uint16", "uint32", "int8", "int16", "int32":
		return json.Number(lex)
	case "uint64", "int64", "decimal64":
		if ietf {
			return lex
		}
		return json.Number(lex)
	case "boolean":
		return lex == "true"
	case "empty":
		if ietf {
			return []any{nil}
		}
		return map[string]any{}
	case "identityref":
		// RFC 7951 6.8: the namespace-qualified form (module NAME, not prefix); mandatory when the identity is defined in
		// another module than the leaf
		if m := world.IdentityModuleOf(lex); ietf && m != "" && !strings.Contains(lex, ":") {
			return m + ":" + lex
		}
	}
	return lex
}

// ToProto builds the wire intent.
func (is IntentSpec) ToProto(si *world.SchemaInfo) (*sdcpb.TransactionIntent, error) {
	ti := &sdcpb.TransactionIntent{Intent: is.Name, Priority: is.Prio, Delete: is.Delete, Orphan: is.Orphan}
	if is.Delete {
		return ti, nil
	}
	switch is.Form {
	case "json", "json_ietf":
		b, err := buildJSON(si, is.Leaves, is.Form == "json_ietf")
		if err != nil {
			return nil, err
		}
		tv := &sdcpb.TypedValue{Value: &sdcpb.TypedValue_JsonVal{JsonVal: b}}
		if is.Form == "json_ietf" {
			tv = &sdcpb.TypedValue{Value: &sdcpb.TypedValue_JsonIetfVal{JsonIetfVal: b}}
		}
		ti.Update = []*sdcpb.Update{{Path: &sdcpb.Path{}, Value: tv}}
	default:
		for _, l := range is.Leaves {
			ti.Update = append(ti.Update, &sdcpb.Update{Path: l.Path.ToSdcpb(), Value: MkTV(l.Node, l.Lex, is.Form)})
		}
	}
	return ti, nil
}

func (tx *TxSpec) ToProto(si *world.SchemaInfo) (*sdcpb.TransactionSetRequest, error) {
	req := &sdcpb.TransactionSetRequest{DatastoreName: world.DSName, TransactionId: tx.ID, DryRun: tx.DryRun}
	if tx.Timeout > 0 {
		t := int32(tx.Timeout)
		req.Timeout = &t
	}
	for _, is := range tx.Intents {
		ti, err := is.ToProto(si)
		if err != nil {
			return nil, err
		}
		req.Intents = append(req.Intents, ti)
	}
	if tx.Replace != nil {
		ti, err := tx.Replace.ToProto(si)
		if err != nil {
			return nil, err
		}
		req.ReplaceIntent = ti
	}
	return req, nil
}

// TxResult is the canonical observation of one TransactionSet call.
type TxResult struct {
	Err          error
	Resp         *sdcpb.TransactionSetResponse
	IntentErrors map[string][]string
	Updates      []string // canonical "path = abs"
	Deletes      []string
	SetsBefore   int
	SetsAfter    int
}

func (r *TxResult) HasIntentErrors() bool {
	for _, e := range r.IntentErrors {
		if len(e) > 0 {
			return true
		}
	}
	return false
}

func (r *TxResult) Accepted() bool { return r.Err == nil && !r.HasIntentErrors() }

// ExecTx sends the transaction through Server.TransactionSet with a simulated RPC deadline.
func ExecTx(rc *sim.RunCtx, w *world.World, tx *TxSpec, rpcTimeout time.Duration) *TxResult {
	res := &TxResult{IntentErrors: map[string][]string{}, SetsBefore: len(w.Dev.Sets)}
	req, err := tx.ToProto(w.SI)
	if err != nil {
		rc.HarnessErr("build request: %v", err)
		res.Err = err
		return res
	}
	rc.Logf("CALL %s", tx.Render())
	ctx := w.Ctx
	var cancel context.CancelFunc
	if rpcTimeout > 0 {
		ctx, cancel = context.WithTimeout(ctx, rpcTimeout)
		defer cancel()
	}
	resp, err := w.Srv.TransactionSet(ctx, req)
	res.Err, res.Resp = err, resp
	res.SetsAfter = len(w.Dev.Sets)
	if err != nil {
		rc.Logf("RET  %s error", tx.ID)
		return res
	}
	names := make([]string, 0)
	for n, ir := range resp.GetIntents() {
		if len(ir.GetErrors()) > 0 {
			res.IntentErrors[n] = ir.GetErrors()
			names = append(names, n)
		}
	}
	sort.Strings(names)
	for _, u := range resp.GetUpdate() {
		p := world.FromSdcpb(u.GetPath())
		res.Updates = append(res.Updates, p.String()+" = "+world.NormAbs(world.AbsTV(w.SI.Node(p), u.GetValue())))
	}
	for _, d := range resp.GetDelete() {
		res.Deletes = append(res.Deletes, world.FromSdcpb(d).String())
	}
	sort.Strings(res.Updates)
	sort.Strings(res.Deletes)
	rc.Logf("RET  %s ok intentErrors=%v upd=%d del=%d", tx.ID, names, len(res.Updates), len(res.Deletes))
	return res
}

func Confirm(rc *sim.RunCtx, w *world.World, id string) error {
	_, err := w.Srv.TransactionConfirm(w.Ctx, &sdcpb.TransactionConfirmRequest{DatastoreName: world.DSName, TransactionId: id})
	rc.Logf("CONFIRM %s err=%t", id, err != nil)
	return err
}

func Cancel(rc *sim.RunCtx, w *world.World, id string) error {
	_, err := w.Srv.TransactionCancel(w.Ctx, &sdcpb.TransactionCancelRequest{DatastoreName: world.DSName, TransactionId: id})
	rc.Logf("CANCEL %s err=%t", id, err != nil)
	return err
}

// ---- generator ----

type GenCfg struct {
	Profile    string
	Owners     []string
	MaxIntents int
	MaxLeaves  int
	// swarm weights per edit kind: create change reprio shrink delete orphan resubmit grow
	W map[string]int
	// input forms weights: typed string json json_ietf
	FormW []int
	// EqualPrio: owners may share a priority (outside C01's quantifier; used by C02 only)
	EqualPrio bool
	// InvalidPct: probability (percent) of drawing a self-invalid value for a constrained slot
	InvalidPct int
}

var editKinds = []string{"create", "change", "grow", "shrink", "reprio", "delete", "orphan", "resubmit"}

// SwarmCfg draws per-run weights (each kind may get weight 0).
func SwarmCfg(t *sim.Tape, profile string, allowed map[string]bool) *GenCfg {
	g := &GenCfg{Profile: profile, Owners: []string{"o1", "o2", "o3", "o4"}, MaxIntents: 3, MaxLeaves: 6, W: map[string]int{}}
	for _, k := range editKinds {
		if allowed != nil && !allowed[k] {
			g.W[k] = 0
			continue
		}
		g.W[k] = []int{3, 1, 0, 5}[t.Choose(4)]
	}
	if g.W["create"] == 0 {
		g.W["create"] = 2
	}
	g.FormW = []int{4, []int{0, 2}[t.Choose(2)], []int{0, 2}[t.Choose(2)], []int{0, 1}[t.Choose(2)]}
	return g
}

type Gen struct {
	T   *sim.Tape
	SI  *world.SchemaInfo
	Cfg *GenCfg
	Uni []Slot
	txN int
}

func NewGen(t *sim.Tape, si *world.SchemaInfo, cfg *GenCfg) *Gen {
	return &Gen{T: t, SI: si, Cfg: cfg, Uni: Universe(si, cfg.Profile)}
}

// pickLex draws a lexical value of a slot honouring InvalidPct.
func (g *Gen) pickLex(s Slot) string {
	if s.NInvalid == 0 {
		return s.Lex[g.T.Choose(len(s.Lex))]
	}
	nv := len(s.Lex) - s.NInvalid
	if g.T.Bool(g.Cfg.InvalidPct, 100) {
		return s.Lex[nv+g.T.Choose(s.NInvalid)]
	}
	return s.Lex[g.T.Choose(nv)]
}

func (g *Gen) pickSlotLeaf(m *Model, avoid map[string]bool, hot []Slot) *MLeaf {
	var s Slot
	if len(hot) > 0 && g.T.Bool(1, 2) {
		s = hot[g.T.Choose(len(hot))]
	} else {
		s = g.Uni[g.T.Choose(len(g.Uni))]
	}
	if avoid[s.Path.String()] {
		return nil
	}
	return NewMLeaf(g.SI, s.Path, g.pickLex(s))
}

// hotSlots: slots whose path some live intent defines (to make overlaps dense).
func (g *Gen) hotSlots(m *Model) []Slot {
	var out []Slot
	for _, s := range g.Uni {
		if len(m.Definers(s.Path.String())) > 0 {
			out = append(out, s)
		}
	}
	return out
}

func (g *Gen) freePrio(m *Model, except string, alsoUsed map[int32]bool) int32 {
	used := map[int32]bool{}
	for _, i := range m.Live {
		if i.Name != except {
			used[i.Prio] = true
		}
	}
	var free []int32
	for k := 0; k < 12; k++ {
		p := int32(5 + 5*k)
		if g.Cfg.EqualPrio && k < 3 {
			free = append(free, p)
			continue
		}
		if !used[p] && !alsoUsed[p] {
			free = append(free, p)
		}
	}
	return free[g.T.Choose(len(free))]
}

func (g *Gen) form() string {
	return []string{"typed", "string", "json", "json_ietf"}[g.T.Weighted(g.Cfg.FormW)]
}

func explicitLeaves(it *MIntent) []*MLeaf {
	// model leaves minus pure key leaves (they are re-implied by the closure); sorted
	keys := make([]string, 0, len(it.Leaves))
	for k := range it.Leaves {
		keys = append(keys, k)
	}
	sort.Strings(keys)
	var out []*MLeaf
	for _, k := range keys {
		l := it.Leaves[k]
		if l.Node.IsKeyLeaf() {
			continue
		}
		out = append(out, l)
	}
	return out
}

// GenIntent generates one intent edit relative to the model. Returns nil if nothing sensible.
func (g *Gen) GenIntent(m *Model, usedNames map[string]bool, usedPrios map[int32]bool) *IntentSpec {
	w := make([]int, len(editKinds))
	for i, k := range editKinds {
		w[i] = g.Cfg.W[k]
	}
	kind := editKinds[g.T.Weighted(w)]
	var liveFree, deadFree []string
	for _, o := range g.Cfg.Owners {
		if usedNames[o] {
			continue
		}
		if _, ok := m.Live[o]; ok {
			liveFree = append(liveFree, o)
		} else {
			deadFree = append(deadFree, o)
		}
	}
	if kind != "create" && len(liveFree) == 0 {
		kind = "create"
	}
	if kind == "create" && len(deadFree) == 0 {
		if len(liveFree) == 0 {
			return nil
		}
		kind = "change"
	}
	hot := g.hotSlots(m)
	switch kind {
	case "create":
		name := deadFree[g.T.Choose(len(deadFree))]
		is := &IntentSpec{Name: name, Prio: g.freePrio(m, name, usedPrios), Edit: "create", Form: g.form()}
		n := 1 + g.T.Choose(g.Cfg.MaxLeaves)
		seen := map[string]bool{}
		for j := 0; j < n; j++ {
			if l := g.pickSlotLeaf(m, seen, hot); l != nil {
				seen[l.Key()] = true
				is.Leaves = append(is.Leaves, l)
			}
		}
		if len(is.Leaves) == 0 {
			return nil
		}
		fixForm(is)
		return is
	}
	name := liveFree[g.T.Choose(len(liveFree))]
	old := m.Live[name]
	cur := explicitLeaves(old)
	is := &IntentSpec{Name: name, Prio: old.Prio, Edit: kind, Form: g.form()}
	switch kind {
	case "delete":
		is.Delete = true
		is.Leaves = nil
	case "orphan":
		is.Delete, is.Orphan = true, true
	case "resubmit":
		is.Leaves = cur
	case "reprio":
		is.Prio = g.freePrio(m, name, usedPrios)
		is.Leaves = append([]*MLeaf(nil), cur...)
		// re-prioritisation combined with a content edit in the same intent version
		switch g.T.Weighted([]int{3, 2, 2, 2}) {
		case 1: // drop leaves
			for j := 0; j < 1+g.T.Choose(2) && len(is.Leaves) > 1; j++ {
				idx := g.T.Choose(len(is.Leaves))
				is.Leaves = append(is.Leaves[:idx], is.Leaves[idx+1:]...)
			}
			is.Edit = "reprio+shrink"
		case 2: // change a value
			if len(is.Leaves) > 0 {
				idx := g.T.Choose(len(is.Leaves))
				for _, s := range g.Uni {
					if s.Path.String() == is.Leaves[idx].Key() {
						is.Leaves[idx] = NewMLeaf(g.SI, s.Path, g.pickLex(s))
					}
				}
				is.Edit = "reprio+change"
			}
		case 3: // add leaves
			seen := map[string]bool{}
			for _, l := range is.Leaves {
				seen[l.Key()] = true
			}
			if l := g.pickSlotLeaf(m, seen, hot); l != nil {
				is.Leaves = append(is.Leaves, l)
				is.Edit = "reprio+grow"
			}
		}
	case "change":
		is.Leaves = append([]*MLeaf(nil), cur...)
		if len(cur) == 0 {
			return nil
		}
		n := 1 + g.T.Choose(2)
		for j := 0; j < n; j++ {
			idx := g.T.Choose(len(is.Leaves))
			l := is.Leaves[idx]
			for _, s := range g.Uni {
				if s.Path.String() == l.Key() {
					is.Leaves[idx] = NewMLeaf(g.SI, s.Path, g.pickLex(s))
				}
			}
		}
	case "grow":
		is.Leaves = append([]*MLeaf(nil), cur...)
		seen := map[string]bool{}
		for _, l := range cur {
			seen[l.Key()] = true
		}
		n := 1 + g.T.Choose(3)
		for j := 0; j < n; j++ {
			if l := g.pickSlotLeaf(m, seen, hot); l != nil {
				seen[l.Key()] = true
				is.Leaves = append(is.Leaves, l)
			}
		}
	case "shrink":
		if len(cur) < 2 {
			return nil
		}
		drop := 1 + g.T.Choose(len(cur)-1)
		is.Leaves = append([]*MLeaf(nil), cur...)
		for j := 0; j < drop && len(is.Leaves) > 1; j++ {
			idx := g.T.Choose(len(is.Leaves))
			is.Leaves = append(is.Leaves[:idx], is.Leaves[idx+1:]...)
		}
	}
	fixForm(is)
	return is
}

// fixForm: JSON blobs cannot express a presence container next to its children; keep those typed.
func fixForm(is *IntentSpec) {
	if is.Form == "json" || is.Form == "json_ietf" {
		for _, l := range is.Leaves {
			if l.Node.Kind == world.KContainer {
				is.Form = "typed"
			}
		}
	}
}

// dropCaseConflicts removes leaves so that an intent populates at most one case per choice instance
// (an intent defining two cases of one choice is not valid YANG data).
func dropCaseConflicts(si *world.SchemaInfo, leaves []*MLeaf) []*MLeaf {
	chosen := map[string]string{}
	var out []*MLeaf
	for _, l := range leaves {
		ok := true
		for i := range l.Path {
			node := si.Node(l.Path[:i+1])
			if node == nil || node.Choice == "" {
				continue
			}
			key := l.Path[:i].String() + "|" + node.Choice
			if c, seen := chosen[key]; seen && c != node.Case {
				ok = false
				break
			}
		}
		if !ok {
			continue
		}
		for i := range l.Path {
			node := si.Node(l.Path[:i+1])
			if node != nil && node.Choice != "" {
				chosen[l.Path[:i].String()+"|"+node.Choice] = node.Case
			}
		}
		out = append(out, l)
	}
	return out
}

// GenTx generates one transaction of 1..MaxIntents intents.
func (g *Gen) GenTx(m *Model) *TxSpec {
	g.txN++
	tx := &TxSpec{ID: fmt.Sprintf("t%d", g.txN)}
	n := 1 + g.T.Weighted([]int{6, 2, 1}[:g.Cfg.MaxIntents])
	used := map[string]bool{}
	usedPrios := map[int32]bool{}
	for j := 0; j < n; j++ {
		if is := g.GenIntent(m, used, usedPrios); is != nil {
			if !is.Delete {
				is.Leaves = dropCaseConflicts(g.SI, is.Leaves)
				if len(is.Leaves) == 0 {
					continue
				}
			}
			used[is.Name] = true
			usedPrios[is.Prio] = true
			tx.Intents = append(tx.Intents, *is)
		}
	}
	if len(tx.Intents) == 0 {
		return nil
	}
	return tx
}

// GenR0 generates an initial running configuration.
func (g *Gen) GenR0() []*world.Leaf {
	var out []*world.Leaf
	if !g.T.Bool(2, 3) {
		return nil
	}
	n := 1 + g.T.Choose(6)
	seen := map[string]bool{}
	var ml []*MLeaf
	for j := 0; j < n; j++ {
		if l := g.pickSlotLeaf(nil, seen, nil); l != nil {
			inChoice := false
			for i := range l.Path {
				if node := g.SI.Node(l.Path[:i+1]); node != nil && node.Choice != "" {
					inChoice = true
				}
			}
			if inChoice {
				continue
			}
			seen[l.Key()] = true
			ml = append(ml, l)
		}
	}
	cl := Closure(g.SI, ml)
	keys := make([]string, 0, len(cl))
	for k := range cl {
		keys = append(keys, k)
	}
	sort.Strings(keys)
	for _, k := range keys {
		l := cl[k]
		tv := MkTV(l.Node, l.Lex, "typed")
		out = append(out, &world.Leaf{Path: l.Path, Abs: l.Abs, TV: tv})
	}
	return out
}
