package sim

import (
	"bufio"
	"bytes"
	"encoding/json"
	"fmt"
	"io"
	"os"
	"os/exec"
	"strings"
	"sync"
	"time"
)

type ringBuf struct {
	mu  sync.Mutex
	buf []byte
	max int
}

func (r *ringBuf) Write(p []byte) (int, error) {
	r.mu.Lock()
	defer r.mu.Unlock()
	r.buf = append(r.buf, p...)
	if len(r.buf) > r.max {
		r.buf = r.buf[len(r.buf)-r.max:]
	}
	return len(p), nil
}

func (r *ringBuf) reset() {
	r.mu.Lock()
	r.buf = nil
	r.mu.Unlock()
}

func (r *ringBuf) String() string {
	r.mu.Lock()
	defer r.mu.Unlock()
	return string(r.buf)
}

type workerProc struct {
	cmd    *exec.Cmd
	stdin  io.WriteCloser
	res    *bufio.Reader
	resF   *os.File
	stderr *ringBuf
	lines  chan string
}

type job struct {
	req  Request
	resp chan *Outcome
}

// Pool runs requests on W worker processes (one run at a time per process).
type Pool struct {
	jobs     chan job
	wg       sync.WaitGroup
	env      []string
	Watchdog time.Duration
	exe      string
	args     []string
}

func NewPool(n int, extraEnv []string) *Pool {
	p := &Pool{jobs: make(chan job), env: extraEnv, Watchdog: 90 * time.Second}
	p.exe = os.Args[0]
	p.args = []string{"-test.run", "^TestVsim$", "-test.timeout", "0"}
	for i := 0; i < n; i++ {
		p.wg.Add(1)
		go p.loop()
	}
	return p
}

func (p *Pool) Close() {
	close(p.jobs)
	p.wg.Wait()
}

func (p *Pool) start() (*workerProc, error) {
	cmd := exec.Command(p.exe, p.args...)
	cmd.Env = append(os.Environ(), "VSIM_MODE=worker")
	cmd.Env = append(cmd.Env, p.env...)
	stdin, err := cmd.StdinPipe()
	if err != nil {
		return nil, err
	}
	pr, pw, err := os.Pipe()
	if err != nil {
		return nil, err
	}
	cmd.ExtraFiles = []*os.File{pw}
	rb := &ringBuf{max: 64 << 10}
	cmd.Stderr = rb
	if os.Getenv("VSIM_TRACE") != "" {
		// tracing: the worker's events are wanted as they happen
		cmd.Stderr = io.MultiWriter(rb, os.Stderr)
	}
	cmd.Stdout = nil
	if err := cmd.Start(); err != nil {
		return nil, err
	}
	pw.Close()
	wp := &workerProc{cmd: cmd, stdin: stdin, resF: pr, stderr: rb, lines: make(chan string, 4)}
	go func() {
		r := bufio.NewReaderSize(pr, 1<<20)
		for {
			line, err := r.ReadString('\n')
			if len(line) > 0 {
				wp.lines <- strings.TrimRight(line, "\n")
			}
			if err != nil {
				close(wp.lines)
				return
			}
		}
	}()
	return wp, nil
}

func (wp *workerProc) kill() {
	wp.stdin.Close()
	wp.cmd.Process.Kill()
	wp.cmd.Wait()
	wp.resF.Close()
}

func (p *Pool) loop() {
	defer p.wg.Done()
	var wp *workerProc
	var hist []uint64
	defer func() {
		if wp != nil {
			wp.kill()
		}
	}()
	for j := range p.jobs {
		if wp == nil {
			var err error
			wp, err = p.start()
			if err != nil {
				j.resp <- &Outcome{Seed: j.req.Seed, HarnessErr: "cannot start worker: " + err.Error()}
				continue
			}
		}
		b, _ := json.Marshal(j.req)
		b = append(b, '\n')
		if _, err := wp.stdin.Write(b); err != nil {
			st := wp.stderr.String()
			wp.kill()
			wp = nil
			j.resp <- &Outcome{Seed: j.req.Seed, Tape: j.req.Tape, Crashed: "worker stdin closed: " + err.Error() + "\n" + tail(st, 4000)}
			continue
		}
		out := p.await(wp, &j.req)
		if out.Crashed != "" {
			wp.kill()
			wp = nil
			if len(hist) > 200 {
				hist = hist[len(hist)-200:]
			}
			out.PrevSeeds = append([]uint64(nil), hist...)
			hist = nil
		} else {
			hist = append(hist, j.req.Seed)
		}
		j.resp <- out
	}
}

func tail(s string, n int) string {
	if len(s) > n {
		return s[len(s)-n:]
	}
	return s
}

func (p *Pool) await(wp *workerProc, req *Request) *Outcome {
	timer := time.NewTimer(p.Watchdog)
	defer timer.Stop()
	for {
		select {
		case line, ok := <-wp.lines:
			if !ok {
				wp.cmd.Wait()
				return &Outcome{Seed: req.Seed, Tape: req.Tape, Crashed: "worker died: " + wp.cmd.ProcessState.String() + "\n" + tail(wp.stderr.String(), 6000)}
			}
			switch {
			case strings.HasPrefix(line, "BEGIN "):
			case strings.HasPrefix(line, "RESULT "):
				var o Outcome
				dec := json.NewDecoder(bytes.NewReader([]byte(line[7:])))
				if err := dec.Decode(&o); err != nil {
					return &Outcome{Seed: req.Seed, HarnessErr: "bad result: " + err.Error()}
				}
				// race detector reports of a -race build arrive on the worker's stderr
				if st := wp.stderr.String(); isRaceReport(st) {
					o.Race = tail(st, 6000)
					wp.stderr.reset()
				}
				return &o
			case strings.HasPrefix(line, "ERROR "):
				return &Outcome{Seed: req.Seed, HarnessErr: line}
			}
		case <-timer.C:
			return &Outcome{Seed: req.Seed, Tape: req.Tape, Crashed: fmt.Sprintf("HANG: no result within %s real time\n%s", p.Watchdog, tail(wp.stderr.String(), 3000))}
		}
	}
}

// Do runs one request synchronously.
func (p *Pool) Do(req Request) *Outcome {
	j := job{req: req, resp: make(chan *Outcome, 1)}
	p.jobs <- j
	return <-j.resp
}

// DoAll runs requests in parallel and returns outcomes in request order.
func (p *Pool) DoAll(reqs []Request) []*Outcome {
	outs := make([]*Outcome, len(reqs))
	var wg sync.WaitGroup
	for i := range reqs {
		wg.Add(1)
		go func(i int) {
			defer wg.Done()
			outs[i] = p.Do(reqs[i])
		}(i)
	}
	wg.Wait()
	return outs
}
