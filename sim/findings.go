package sim

import (
	"encoding/json"
	"os"
	"regexp"
)

// Finding is one entry of /verif/known-findings.json (never written at run time).
type Finding struct {
	ID       string            `json:"id"`
	Property string            `json:"property"`
	Status   string            `json:"status"` // open | fixed
	Commit   string            `json:"commit,omitempty"`
	Clause   string            `json:"clause"`
	Match    map[string]string `json:"match,omitempty"` // field -> regexp (anchored by author)
	What     string            `json:"what"`
	re       map[string]*regexp.Regexp
}

type Findings struct {
	List []*Finding `json:"findings"`
}

func LoadFindings(path string) (*Findings, error) {
	b, err := os.ReadFile(path)
	if err != nil {
		if os.IsNotExist(err) {
			return &Findings{}, nil
		}
		return nil, err
	}
	var f Findings
	if err := json.Unmarshal(b, &f); err != nil {
		return nil, err
	}
	for _, x := range f.List {
		x.re = map[string]*regexp.Regexp{}
		for k, v := range x.Match {
			r, err := regexp.Compile(v)
			if err != nil {
				return nil, err
			}
			x.re[k] = r
		}
	}
	return &f, nil
}

// Match returns the id of the open finding matching the item, or "".
func (f *Findings) Match(it *Item) string {
	for _, x := range f.List {
		if x.Status != "open" || x.Clause != it.Clause {
			continue
		}
		ok := true
		for k, r := range x.re {
			if !r.MatchString(it.Fields[k]) {
				ok = false
				break
			}
		}
		if ok {
			return x.ID
		}
	}
	return ""
}

func (f *Findings) OpenFor(prop string) []*Finding {
	var out []*Finding
	for _, x := range f.List {
		if x.Status == "open" && x.Property == prop {
			out = append(out, x)
		}
	}
	return out
}
