#!/usr/bin/env python3
"""usage: seedprompt.py <PROP> <TAG> [hint]: prints the prompt for a fresh sub-agent that seeds a property-breaking change.
Only the text of the property goes in; nothing from /verif."""
import json, sys
prop, tag = sys.argv[1], sys.argv[2]
hint = sys.argv[3] if len(sys.argv) > 3 else ""
p = next(json.loads(l) for l in open('/verif/properties.jsonl') if json.loads(l)['id'] == prop)
anch = p['anchors']
mech = "\n".join(f"  - {m['name']}: {m['where']}" for m in anch.get('mechanism', []))
print(f"""You are helping to evaluate a verification effort by writing ONE realistic regression ("seeded change") for the Go project sdcio/data-server
(a YANG-schema-driven config datastore: merges prioritized intents in a tree, validates them, pushes diffs to devices via gNMI/NETCONF).

Your scratch git worktree of the repository is /tmp/seed-{tag} (already created; work ONLY there; never touch /repo or /verif and do not read /verif).
Every shell call needs: export GOFLAGS=-mod=mod GOPROXY=off GOSUMDB=off GOTOOLCHAIN=local   (no network; `go` is 1.23; the test suite runs in ~15 s with
`go test -vet=off -count=1 ./...`).

The property that your change must BREAK:

  Title: {p['title']}
  Statement: {p['statement']}
  Quantified over: {p['quantifier']['text']}
  Why the existing tests cannot settle it: {p['why_tests_cant']}
  Anchored in files: {', '.join(anch.get('files', []))}
  Mechanisms:
{mech}

Task: make a small change to the production code (non-test .go files) in /tmp/seed-{tag} such that
  1. the project still compiles (`go build ./...`) and the COMPLETE existing test suite still passes (`go test -vet=off -count=1 ./...`), unedited;
  2. the property above is violated by the changed code - but only when something specific happens: a particular interleaving, a fault or
     error at a particular point, a multi-step sequence of operations, an unusual (but legal) input, or two cooperating code sites that each look
     fine alone. NOT something ordinary use would expose at once (e.g. do not break every TransactionSet). The change should look like a plausible
     refactoring slip / optimisation / mis-merge that a reviewer could wave through; no comments that give it away, no dead giveaways in names.
  3. you provide a demonstration: a NEW Go test file (name it *_seed_test.go, any package of the repo; it may use the repo's existing mocks/test
     helpers, hand-written fakes, etc.) that FAILS with your change and PASSES on the unchanged code. Keep the production change and the
     demonstration strictly separate: the demo file must be a new untracked file; the production change must be modifications to tracked files only.
{hint}
Verify all of this yourself (build; full suite with your change and the demo moved aside; demo with the change -> fails; save the production
change with `git diff > /tmp/seed-out/{tag}.diff`, remove it with `git apply -R /tmp/seed-out/{tag}.diff` -> demo passes; restore it with
`git apply /tmp/seed-out/{tag}.diff`. Do NOT use `git stash`: the stash is shared with other worktrees of this repository that other people are
using at the same time). Leave the worktree with the production change applied (uncommitted) and the demo file present (untracked).

Finally write /tmp/seed-out/{tag}/meta.json (create the directory) with keys:
  "property": "{prop}", "summary": what you changed and why it breaks the property, "needs": what exactly is needed for it to manifest,
  "files": [changed production files], "demo_file": path of the demo test relative to the worktree,
  "demo_cmd": a shell command that runs only the demo, of the form
     "cd /tmp/seed-{tag} && export GOFLAGS=-mod=mod GOPROXY=off GOSUMDB=off GOTOOLCHAIN=local && go test -vet=off -count=1 -run <TestName> ./<pkg>/"
and reply with a short report (what changed, what is needed to manifest, results of your verification runs).""")
