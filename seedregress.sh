#!/bin/bash
# usage: seedregress.sh [TAG...] : applies every stored seeded change to /repo in turn, runs the check that is recorded as catching it
# (first check id in meta.caught_by; thorough tier if the note says so), reverts; prints one line per seed.
cd /verif
tags="$@"; [ -z "$tags" ] && tags=$(ls seeded)
for t in $tags; do
  chk=$(python3 -c "
import json,re
m=json.load(open('seeded/$t/meta.json'))
c=m.get('caught_by','')
# the check named right before 'quick'/'thorough' of the (last) 'caught by' clause
i=c.rfind('caught by')
s=c[i:] if i>=0 else c
ids=re.findall(r'C\d\d', s)
print(ids[0] if ids else m['property'], 'thorough' if re.search(r'C\d\d thorough', s) else 'quick')
")
  set -- $chk
  out=$(TIER=$2 ./seedtest.sh /verif/seeded/$t/patch.diff ${BUDGET:-60} $1 2>&1)
  v=$(echo "$out" | grep -c "^VIOLATION")
  echo "$t check=$1/$2 violations=$v $(echo "$out" | grep -E 'SUMMARY|PATCH DOES NOT|BUILD FAILS|not clean' | sed -E 's/.*(runs=[0-9]+).*(wall_s=[0-9.]+).*/\1 \2/' | head -1)"
done
