package sim

import (
	"encoding/json"
	"fmt"
	"os"
	"os/exec"
	"path/filepath"
	"runtime"
	"sort"
	"strconv"
	"strings"
	"time"
)

func verifDir() string {
	if d := os.Getenv("VERIF_DIR"); d != "" {
		return d
	}
	return "/verif"
}

func envInt(name string, def int) int {
	if v := os.Getenv(name); v != "" {
		if n, err := strconv.Atoi(v); err == nil {
			return n
		}
	}
	return def
}

// ReplayFile is what a violation is reported as (DESIGN 2.6).
type ReplayFile struct {
	Property  string            `json:"property"`
	Clause    string            `json:"clause"`
	Tier      string            `json:"tier"`
	Seed      uint64            `json:"run_seed"`
	BatchSeed int               `json:"verif_seed"`
	RepoRev   string            `json:"repo_rev"`
	Tape      []uint32          `json:"tape"`
	Opts      map[string]string `json:"opts,omitempty"`
	Items     []Item            `json:"items"`
	// FirstSeen: the items of the run that first showed the clause (kept because a replay may not show it again when the
	// outcome depends on map iteration order or on a free-running leg)
	FirstSeen []Item   `json:"first_seen,omitempty"`
	Scenario  []string `json:"scenario"`
	Log       []string `json:"log"`
	LogHash   string   `json:"log_hash"`
	Repro     string   `json:"reproduction"`
	Crash     string   `json:"crash,omitempty"`
	OrigLen   int      `json:"original_tape_len"`
	MinTried  int      `json:"minimiser_candidates"`
}

func repoRev() string {
	out, err := exec.Command("git", "-C", "/repo", "rev-parse", "--short", "HEAD").Output()
	rev := strings.TrimSpace(string(out))
	if err != nil {
		rev = "unknown"
	}
	st, _ := exec.Command("git", "-C", "/repo", "status", "--porcelain").Output()
	if len(strings.TrimSpace(string(st))) > 0 {
		rev += "+dirty"
	}
	return rev
}

type agg struct {
	runs, nontrivial int
	sigs             map[string]bool
	simSec           float64
	steps            int
	faults, probes   map[string]int
	buggify          map[string]int
	extra            map[string]int
	samples          [][]string
	kfSeen           map[string]int
	consequences     map[string]int
	harnessErrs      []string
	seeds            []uint64
}

// classify marks KF matches and returns (clean violations, suspects) for property prop.
func classify(o *Outcome, prop string, kf *Findings) (clean, suspect []Item) {
	firstKF := -1
	for i := range o.Items {
		o.Items[i].KF = kf.Match(&o.Items[i])
		if o.Items[i].KF != "" && firstKF < 0 {
			firstKF = i
		}
	}
	for i, it := range o.Items {
		if it.KF != "" || it.Prop != prop {
			continue
		}
		if firstKF >= 0 && firstKF < i {
			suspect = append(suspect, it)
		} else {
			clean = append(clean, it)
		}
	}
	return
}

// cleanPred: an unmatched item of the given clause occurs with no KF-matched item before it.
func cleanPred(prop, clause string, kf *Findings) Pred {
	return func(o *Outcome) bool {
		if o == nil {
			return false
		}
		c, _ := classify(o, prop, kf)
		for _, it := range c {
			if it.Clause == clause {
				return true
			}
		}
		return false
	}
}

// ParentMain is the entry point of `run.sh <ID> <tier>` / `--replay` / `selftest`.
func ParentMain(args []string, get func(string) *Check, ids func() []string) int {
	if len(args) < 1 {
		fmt.Fprintln(os.Stderr, "usage: vsim <ID> quick|thorough | <ID> --replay <file> | selftest [ids]")
		return 2
	}
	if args[0] == "selftest" {
		return selfTest(args[1:], get, ids)
	}
	prop := args[0]
	c := get(prop)
	if c == nil {
		fmt.Fprintf(os.Stderr, "unknown property %s (have %v)\n", prop, ids())
		return 2
	}
	if len(args) >= 3 && args[1] == "--replay" {
		return replayMain(c, args[2])
	}
	if len(args) >= 3 && args[1] == "--log" {
		// print the canonical event log of one run-seed (debugging / determinism triage)
		seed, _ := strconv.ParseUint(args[2], 10, 64)
		pool := NewPool(1, nil)
		defer pool.Close()
		o := pool.Do(Request{Prop: c.ID, Tier: "quick", Seed: seed, KeepLog: true})
		for _, l := range o.Log {
			fmt.Println(l)
		}
		fmt.Println("HASH", o.LogHash, o.Crashed)
		return 0
	}
	tier := "quick"
	if len(args) >= 2 {
		tier = args[1]
	}
	if t := os.Getenv("VERIF_TIER"); t != "" && len(args) < 2 {
		tier = t
	}
	return batchMain(c, tier)
}

func batchMain(c *Check, tier string) int {
	start := time.Now()
	seed := envInt("VERIF_SEED", 1)
	workers := envInt("VERIF_WORKERS", runtime.NumCPU())
	kf, err := LoadFindings(filepath.Join(verifDir(), "known-findings.json"))
	if err != nil {
		fmt.Fprintf(os.Stderr, "known-findings.json: %v\n", err)
		return 2
	}
	budget := time.Duration(c.QuickSeconds) * time.Second
	maxRuns := c.QuickMaxRuns
	minBudget := 20 * time.Second
	if tier == "thorough" {
		budget = time.Duration(c.ThoroughSeconds) * time.Second
		maxRuns = c.ThoroughMaxRuns
		minBudget = 120 * time.Second
	}
	if v := envInt("VERIF_BUDGET_S", 0); v > 0 {
		budget = time.Duration(v) * time.Second
	}
	if v := envInt("VERIF_MAX_RUNS", 0); v > 0 {
		maxRuns = v
	}
	pool := NewPool(workers, nil)
	defer pool.Close()

	a := &agg{sigs: map[string]bool{}, faults: map[string]int{}, probes: map[string]int{}, buggify: map[string]int{}, extra: map[string]int{},
		kfSeen: map[string]int{}, consequences: map[string]int{}}
	type pending struct {
		o      *Outcome
		clause string
		clean  bool
	}
	var cleanViol, suspects []pending
	var crashes []*Outcome
	results := make(chan *Outcome, workers*2)
	deadline := start.Add(budget)
	idx := 0
	inflight := 0
	launch := func() {
		rs := SplitMix(uint64(seed), uint64(idx))
		idx++
		inflight++
		go func() { results <- pool.Do(Request{Prop: c.ID, Tier: tier, Seed: rs}) }()
	}
	more := func() bool {
		if maxRuns > 0 && idx >= maxRuns {
			return false
		}
		return time.Now().Before(deadline) && len(cleanViol) < 5
	}
	for inflight < workers && more() {
		launch()
	}
	for inflight > 0 {
		o := <-results
		inflight--
		if more() {
			launch()
		}
		a.runs++
		a.seeds = append(a.seeds, o.Seed)
		if o.Crashed != "" {
			crashes = append(crashes, o)
			continue
		}
		if o.HarnessErr != "" {
			a.harnessErrs = append(a.harnessErrs, fmt.Sprintf("seed %d: %s", o.Seed, o.HarnessErr))
			continue
		}
		a.simSec += o.SimSeconds
		a.steps += o.Steps
		if o.NonTrivial {
			a.nontrivial++
			a.sigs[o.Sig] = true
		}
		for k, v := range o.Faults {
			a.faults[k] += v
		}
		for k, v := range o.Probes {
			a.probes[k] += v
		}
		for k, v := range o.Extra {
			a.extra[k] += v
		}
		for _, b := range o.Buggify {
			a.buggify[b]++
		}
		if len(a.samples) < 3 && o.NonTrivial && len(o.Scenario) > 0 {
			a.samples = append(a.samples, o.Scenario)
		}
		if o.Race != "" && raceInHarness(o.Race) {
			a.harnessErrs = append(a.harnessErrs, "data race inside the simulator's own code: "+tail(o.Race, 1500))
		} else if o.Race != "" {
			a.extra["race_reports"]++
			o.Items = append(o.Items, raceItem(o.Race))
		}
		cl, su := classify(o, c.ID, kf)
		seenKF := map[string]bool{}
		for _, it := range o.Items {
			if it.KF != "" && !seenKF[it.KF] {
				seenKF[it.KF] = true
				a.kfSeen[it.KF]++
			}
		}
		seenClause := map[string]bool{}
		for _, it := range cl {
			if !seenClause[it.Clause] {
				seenClause[it.Clause] = true
				cleanViol = append(cleanViol, pending{o, it.Clause, true})
			}
		}
		for _, it := range su {
			if !seenClause[it.Clause] {
				seenClause[it.Clause] = true
				suspects = append(suspects, pending{o, it.Clause, false})
			}
		}
	}
	if len(a.samples) == 0 {
		// fall back to any scenario
	}

	exit := 0
	violations := 0
	// crashes / hangs
	if len(crashes) > 0 {
		rc := handleCrashes(c, tier, seed, pool, crashes, kf)
		if rc.violations > 0 {
			violations += rc.violations
			exit = 1
		} else if rc.harness {
			exit = 2
		}
		for k, v := range rc.kf {
			a.kfSeen[k] += v
		}
		a.extra["unreproduced_worker_deaths"] += rc.unreproduced
	}
	if len(a.harnessErrs) > 0 {
		for i, e := range a.harnessErrs {
			if i < 5 {
				fmt.Fprintf(os.Stderr, "HARNESS: %s\n", e)
			}
		}
		if exit == 0 {
			exit = 2
		}
	}
	minBudgetPer := 20 * time.Second
	if tier == "thorough" {
		minBudgetPer = 90 * time.Second
	}
	_ = minBudget
	// clean violations: minimise and report (one per clause)
	reported := map[string]bool{}
	for _, pv := range cleanViol {
		if reported[pv.clause] {
			continue
		}
		reported[pv.clause] = true
		path := reportViolation(c, tier, seed, pool, pv.o, pv.clause, kf, minBudgetPer)
		fmt.Printf("VIOLATION property=%s replay=%s\n", c.ID, path)
		violations++
		exit = 1
	}
	// suspects: only violations if reproducible without a preceding known finding
	perClause := map[string]int{}
	for _, pv := range suspects {
		if reported[pv.clause] {
			continue
		}
		if perClause[pv.clause] >= 2 {
			a.consequences[pv.clause]++
			continue
		}
		perClause[pv.clause]++
		pred := cleanPred(c.ID, pv.clause, kf)
		base := Request{Prop: c.ID, Tier: tier, Seed: pv.o.Seed}
		tape, out, _ := Minimize(pool, base, pv.o.Tape, pred, 6*time.Second)
		if out != nil && pred(out) {
			reported[pv.clause] = true
			out.Tape = tape
			path := reportViolation(c, tier, seed, pool, out, pv.clause, kf, minBudgetPer)
			fmt.Printf("VIOLATION property=%s replay=%s\n", c.ID, path)
			violations++
			exit = 1
		} else {
			a.consequences[pv.clause]++
		}
	}
	// required probes
	var missingProbes []string
	if exit == 0 && a.runs >= 50 {
		for _, p := range c.RequiredProbes {
			if a.probes[p] == 0 && a.faults[p] == 0 && a.extra[p] == 0 {
				missingProbes = append(missingProbes, p)
			}
		}
		if len(missingProbes) > 0 {
			fmt.Fprintf(os.Stderr, "HARNESS: required probes never hit: %v (cannot observe)\n", missingProbes)
			exit = 2
		}
	}
	// known findings
	for _, f := range kf.OpenFor(c.ID) {
		fmt.Printf("KNOWN-FINDING: property=%s %s %s (seen in %d runs)\n", c.ID, f.ID, f.What, a.kfSeen[f.ID])
	}
	for cl, n := range a.consequences {
		fmt.Printf("KNOWN-FINDING: property=%s (consequence) %d runs showed %s only after a listed finding had already corrupted the state\n", c.ID, n, cl)
	}
	wall := time.Since(start).Seconds()
	writeEvidence(c, tier, seed, a, violations, wall, workers)
	fmt.Printf("SUMMARY property=%s tier=%s seed=%d runs=%d nontrivial=%d distinct=%d sim_s=%.0f wall_s=%.1f violations=%d kf=%v exit=%d\n",
		c.ID, tier, seed, a.runs, a.nontrivial, len(a.sigs), a.simSec, wall, violations, a.kfSeen, exit)
	return exit
}

type crashResult struct {
	unreproduced int
	violations   int
	harness      bool
	kf           map[string]int
}

func handleCrashes(c *Check, tier string, seed int, pool *Pool, crashes []*Outcome, kf *Findings) crashResult {
	res := crashResult{kf: map[string]int{}}
	done := map[string]bool{}
	for _, cr := range crashes {
		kind := "crash"
		if strings.HasPrefix(cr.Crashed, "HANG") {
			kind = "hang"
		}
		if done[kind] {
			continue
		}
		raceText := cr.Crashed
		if !isRaceReport(raceText) && os.Getenv("GORACE") != "" {
			// the dying worker's stderr may have been cut; a fresh worker on the same input shows whether it is the race again
			if re := pool.Do(Request{Prop: c.ID, Tier: tier, Seed: cr.Seed}); isRaceReport(re.Crashed) {
				raceText = re.Crashed
			}
		}
		if isRaceReport(raceText) && raceInHarness(raceText) {
			fmt.Fprintf(os.Stderr, "HARNESS: data race inside the simulator's own code (not judged):\n%s\n", tail(raceText, 3000))
			res.harness = true
			continue
		}
		if isRaceReport(raceText) {
			cr.Crashed = raceText
			// a -race build: the testing package fails the bubble after a race report and the worker exits. The report itself is
			// the evidence (the race detector has no false positives); the interleaving is not seeded, so no reproduction is demanded.
			it := raceItem(cr.Crashed)
			if done["race:"+it.Fields["frame"]] {
				continue
			}
			done["race:"+it.Fields["frame"]] = true
			if id := kf.Match(&it); id != "" {
				res.kf[id]++
				continue
			}
			rf := &ReplayFile{Property: c.ID, Clause: it.Clause, Tier: tier, Seed: cr.Seed, BatchSeed: seed, RepoRev: repoRev(),
				Items: []Item{it}, Crash: it.Detail, Repro: "race detector report; the input replays by run-seed, the interleaving is the host scheduler's"}
			path := writeReplay(rf)
			fmt.Printf("VIOLATION property=%s replay=%s\n", c.ID, path)
			res.violations++
			continue
		}
		// confirm in a fresh worker
		re := pool.Do(Request{Prop: c.ID, Tier: tier, Seed: cr.Seed})
		if re.Crashed == "" && len(cr.PrevSeeds) > 0 {
			// the death may depend on what the same worker process ran before: replay its sequence in one fresh process
			single := NewPool(1, nil)
			for _, s := range cr.PrevSeeds {
				if o := single.Do(Request{Prop: c.ID, Tier: tier, Seed: s}); o.Crashed != "" {
					re = o
					break
				}
			}
			if re.Crashed == "" {
				re = single.Do(Request{Prop: c.ID, Tier: tier, Seed: cr.Seed})
			}
			single.Close()
		}
		if re.Crashed == "" {
			// neither the run-seed nor the worker's whole sequence reproduces it: reported, not judged
			fmt.Fprintf(os.Stderr, "NOTE: one worker process died during seed %d (%s) and neither that seed nor the worker's preceding %d seeds reproduce it in fresh processes; not counted:\n%s\n", cr.Seed, firstLine(cr.Crashed), len(cr.PrevSeeds), tail(cr.Crashed, 3000))
			res.unreproduced++
			continue
		}
		done[kind] = true
		isViolation := (kind == "crash" && c.CrashIsViolation) || (kind == "hang" && c.HangIsViolation)
		if !isViolation {
			fmt.Fprintf(os.Stderr, "HARNESS: reproducible %s of the worker at seed %d (not a clause of %s):\n%s\n", kind, cr.Seed, c.ID, tail(re.Crashed, 2500))
			res.harness = true
			continue
		}
		it := Item{Prop: c.ID, Clause: c.ID + "." + kind, Detail: firstLine(re.Crashed), Fields: map[string]string{"signature": crashSignature(re.Crashed)}}
		if id := kf.Match(&it); id != "" {
			res.kf[id]++
			continue
		}
		// the tape of a run that kills its worker never comes back with a result: run the seed once more with the tape dumped
		// to a file as it is consumed, then shrink it while the same crash signature persists
		rf := &ReplayFile{Property: c.ID, Clause: it.Clause, Tier: tier, Seed: cr.Seed, BatchSeed: seed, RepoRev: repoRev(),
			Items: []Item{it}, Crash: tail(re.Crashed, 8000), Repro: "reproduced 2/2 by run-seed in fresh workers"}
		dump := filepath.Join(os.TempDir(), fmt.Sprintf("vsim-tape-%d-%d", os.Getpid(), cr.Seed))
		pool.Do(Request{Prop: c.ID, Tier: tier, Seed: cr.Seed, DumpTape: dump})
		if tape, err := ReadTapeDump(dump); err == nil && len(tape) > 0 {
			sig := it.Fields["signature"]
			pred := func(o *Outcome) bool { return o != nil && o.Crashed != "" && crashSignature(o.Crashed) == sig }
			budget := 20 * time.Second
			if tier == "thorough" {
				budget = 90 * time.Second
			}
			min, _, tried := Minimize(pool, Request{Prop: c.ID, Tier: tier, Seed: cr.Seed}, tape, pred, budget)
			chk := pool.DoAll([]Request{{Prop: c.ID, Tier: tier, Seed: cr.Seed, Replay: true, Tape: min}, {Prop: c.ID, Tier: tier, Seed: cr.Seed, Replay: true, Tape: min}})
			okc := 0
			for _, o := range chk {
				if pred(o) {
					okc++
					rf.Crash = tail(o.Crashed, 8000)
				}
			}
			if okc > 0 {
				rf.Tape, rf.OrigLen, rf.MinTried = min, len(tape), tried
				rf.Repro = fmt.Sprintf("reproduced 2/2 by run-seed; %d/2 replays of the minimised tape (%d of %d values) die with the same signature", okc, len(min), len(tape))
			}
		}
		os.Remove(dump)
		path := writeReplay(rf)
		fmt.Printf("VIOLATION property=%s replay=%s\n", c.ID, path)
		res.violations++
	}
	return res
}

func isRaceReport(s string) bool {
	return strings.Contains(s, "WARNING: DATA RACE") || strings.Contains(s, "Previous write at 0x") || strings.Contains(s, "Previous read at 0x")
}

// raceAccessFrames returns the innermost frame of each of the two accesses of a race report.
func raceAccessFrames(report string) []string {
	var out []string
	lines := strings.Split(report, "\n")
	for i, l := range lines {
		t := strings.TrimSpace(l)
		if (strings.HasPrefix(t, "Read at ") || strings.HasPrefix(t, "Write at ") || strings.HasPrefix(t, "Previous read at ") || strings.HasPrefix(t, "Previous write at ") ||
			strings.HasPrefix(t, "Atomic read at ") || strings.HasPrefix(t, "Atomic write at ") || strings.HasPrefix(t, "Previous atomic ")) && i+1 < len(lines) {
			out = append(out, strings.TrimSpace(lines[i+1]))
		}
	}
	return out
}

// raceInHarness: both racing accesses are in harness code (package verif/...): a defect of the simulator, not of data-server.
func raceInHarness(report string) bool {
	fr := raceAccessFrames(report)
	if len(fr) == 0 {
		return false
	}
	for _, f := range fr {
		if !strings.HasPrefix(f, "verif/") {
			return false
		}
	}
	return true
}

// raceItem turns a Go race detector report into a C17 discrepancy; the first data-server frame identifies it.
func raceItem(report string) Item {
	if i := strings.Index(report, "WARNING: DATA RACE"); i >= 0 {
		report = report[i:]
	}
	frame := "?"
	for _, l := range strings.Split(report, "\n") {
		t := strings.TrimSpace(l)
		if strings.HasPrefix(t, "github.com/sdcio/data-server/pkg/") {
			frame = t
			if j := strings.LastIndex(frame, "("); j > 0 {
				frame = frame[:j]
			}
			break
		}
	}
	return Item{Prop: "C17", Clause: "C17.data-race", Fields: map[string]string{"frame": frame}, Detail: tail(report, 6000)}
}

func crashSignature(s string) string {
	for _, l := range strings.Split(s, "\n") {
		if strings.HasPrefix(l, "panic:") || strings.HasPrefix(l, "fatal error:") {
			return l
		}
	}
	return firstLine(s)
}

func firstLine(s string) string {
	if i := strings.Index(s, "\n"); i >= 0 {
		return s[:i]
	}
	return s
}

func reportViolation(c *Check, tier string, seed int, pool *Pool, o *Outcome, clause string, kf *Findings, budget time.Duration) string {
	pred := cleanPred(c.ID, clause, kf)
	base := Request{Prop: c.ID, Tier: tier, Seed: o.Seed}
	tape, _, tried := Minimize(pool, base, o.Tape, pred, budget)
	// final replay in a fresh worker with the event log, 3 times
	reqs := []Request{}
	for i := 0; i < 3; i++ {
		r := base
		r.Replay, r.Tape, r.KeepLog = true, tape, true
		reqs = append(reqs, r)
	}
	outs := pool.DoAll(reqs)
	ok := 0
	var final *Outcome
	hashes := map[string]bool{}
	for _, x := range outs {
		if pred(x) {
			ok++
			if final == nil {
				final = x
			}
			hashes[x.LogHash] = true
		}
	}
	if final == nil {
		// minimised tape does not reproduce (map-order dependent?) fall back to the original tape
		r := base
		r.Replay, r.Tape, r.KeepLog = true, o.Tape, true
		final = pool.Do(r)
		tape = o.Tape
		classify(final, c.ID, kf)
	}
	rf := &ReplayFile{Property: c.ID, Clause: clause, Tier: tier, Seed: o.Seed, BatchSeed: seed, RepoRev: repoRev(), Tape: tape,
		Scenario: final.Scenario, Log: final.Log, LogHash: final.LogHash, OrigLen: len(o.Tape), MinTried: tried,
		Repro: fmt.Sprintf("%d/3 replays of the minimised tape showed the clause; %d distinct event-log hashes", ok, len(hashes))}
	if ok == 0 {
		for _, it := range o.Items {
			if it.KF == "" && it.Clause == clause {
				rf.FirstSeen = append(rf.FirstSeen, it)
			}
		}
	}
	for _, it := range final.Items {
		if it.KF == "" {
			rf.Items = append(rf.Items, it)
		}
	}
	return writeReplay(rf)
}

func writeReplay(rf *ReplayFile) string {
	dir := filepath.Join(verifDir(), "replays")
	os.MkdirAll(dir, 0o755)
	name := fmt.Sprintf("%s-%s-%d.json", rf.Property, strings.ReplaceAll(strings.TrimPrefix(rf.Clause, rf.Property+"."), "/", "_"), rf.Seed)
	path := filepath.Join(dir, name)
	b, _ := json.MarshalIndent(rf, "", " ")
	os.WriteFile(path, b, 0o644)
	return path
}

func replayMain(c *Check, file string) int {
	b, err := os.ReadFile(file)
	if err != nil {
		fmt.Fprintln(os.Stderr, err)
		return 2
	}
	var rf ReplayFile
	if err := json.Unmarshal(b, &rf); err != nil {
		fmt.Fprintln(os.Stderr, err)
		return 2
	}
	kf, err := LoadFindings(filepath.Join(verifDir(), "known-findings.json"))
	if err != nil {
		fmt.Fprintln(os.Stderr, err)
		return 2
	}
	n := envInt("VERIF_REPLAYS", 3)
	pool := NewPool(n, nil)
	defer pool.Close()
	reqs := []Request{}
	for i := 0; i < n; i++ {
		r := Request{Prop: c.ID, Tier: rf.Tier, Seed: rf.Seed, Opts: rf.Opts, KeepLog: true}
		if len(rf.Tape) > 0 {
			r.Replay, r.Tape = true, rf.Tape
		}
		reqs = append(reqs, r)
	}
	outs := pool.DoAll(reqs)
	hit := 0
	hashes := map[string]int{}
	var shown *Outcome
	for _, o := range outs {
		if o.Crashed != "" {
			if strings.HasSuffix(rf.Clause, ".crash") || strings.HasSuffix(rf.Clause, ".hang") {
				hit++
				if shown == nil {
					shown = o
				}
			}
			continue
		}
		classify(o, c.ID, kf)
		hashes[o.LogHash]++
		for _, it := range o.Items {
			if it.Clause == rf.Clause && it.KF == "" {
				hit++
				if shown == nil {
					shown = o
				}
				break
			}
		}
	}
	fmt.Printf("REPLAY property=%s clause=%s reproduced=%d/%d distinct_log_hashes=%d recorded_log_hash=%s\n", c.ID, rf.Clause, hit, n, len(hashes), rf.LogHash)
	if shown != nil {
		for _, l := range shown.Scenario {
			fmt.Println("  " + l)
		}
		for _, it := range shown.Items {
			if it.KF == "" {
				fmt.Println("  ITEM " + it.String())
			}
		}
		if shown.Crashed != "" {
			fmt.Println(tail(shown.Crashed, 3000))
		}
		fmt.Printf("VIOLATION property=%s replay=%s\n", c.ID, file)
		return 1
	}
	return 0
}

func writeEvidence(c *Check, tier string, seed int, a *agg, violations int, wall float64, workers int) {
	samples := []any{}
	for _, s := range a.samples {
		samples = append(samples, s)
	}
	if len(samples) == 0 {
		samples = append(samples, "no non-trivial run in this batch")
	}
	seeds := a.seeds
	sort.Slice(seeds, func(i, j int) bool { return seeds[i] < seeds[j] })
	if len(seeds) > 5 {
		seeds = seeds[:5]
	}
	assume := c.Assume
	if assume == nil {
		assume = []string{"Go 1.26.8 runtime and testing/synctest fake clock", "sdcio/cache + badger, schema-server + goyang behave as in production (real code, not judged)", "the harness's device model, decoders and reference models are correct", "bounds: vsim schema, <=4 owners, <=3 intents per transaction"}
	}
	ev := map[string]any{
		"property_id": c.ID,
		"tier":        tier,
		"seed":        seed,
		"level":       c.Level,
		"coverage": map[string]any{
			"evaluations":         a.runs,
			"distinct_nontrivial": len(a.sigs),
			"nontrivial_runs":     a.nontrivial,
			"rule":                c.Rule,
			"samples":             samples,
			"runs_per_hour":       int(float64(a.runs) / wall * 3600),
			"seeds_per_hour":      int(float64(a.runs) / wall * 3600),
			"simulated_seconds":   a.simSec,
			"operations":          a.steps,
			"faults_fired":        a.faults,
			"probes":              a.probes,
			"buggify":             a.buggify,
			"counters":            a.extra,
			"components":          map[string]any{"real": c.Real, "stub": c.Stub},
			"known_findings_seen": a.kfSeen,
			"consequence_runs":    a.consequences,
			"workers":             workers,
			"first_run_seeds":     seeds,
			"exhaustive":          false,
			"repo_rev":            repoRev(),
		},
		"assumptions": assume,
		"wall_s":      wall,
		"violations":  violations,
	}
	dir := filepath.Join(verifDir(), "evidence")
	os.MkdirAll(dir, 0o755)
	b, _ := json.MarshalIndent(ev, "", " ")
	os.WriteFile(filepath.Join(dir, c.ID+".json"), b, 0o644)
}

// selfTest: same run-seeds in fresh processes at GOMAXPROCS 1/4/16 must give identical event-log hashes.
func selfTest(args []string, get func(string) *Check, ids func() []string) int {
	props := args
	if len(props) == 0 {
		props = ids()
	}
	n := envInt("VERIF_SELFTEST_SEEDS", 30)
	seed := envInt("VERIF_SEED", 1)
	bad := 0
	for _, id := range props {
		c := get(id)
		if c == nil || c.NonDeterministic {
			continue
		}
		hashes := map[uint64]map[string]string{}
		logs := map[uint64]map[string][]string{}
		for _, cfg := range []struct {
			procs   string
			workers int
		}{{"1", 16}, {"4", 4}, {"16", 1}, {"2", 8}} {
			pool := NewPool(cfg.workers, []string{"GOMAXPROCS=" + cfg.procs})
			reqs := []Request{}
			for i := 0; i < n; i++ {
				reqs = append(reqs, Request{Prop: id, Tier: "quick", Seed: SplitMix(uint64(seed), uint64(i)), KeepLog: true})
			}
			outs := pool.DoAll(reqs)
			pool.Close()
			for _, o := range outs {
				if hashes[o.Seed] == nil {
					hashes[o.Seed] = map[string]string{}
				}
				h := o.LogHash
				if o.Crashed != "" {
					h = "CRASH:" + crashSignature(o.Crashed)
				}
				hashes[o.Seed]["P"+cfg.procs] = h
				if logs[o.Seed] == nil {
					logs[o.Seed] = map[string][]string{}
				}
				logs[o.Seed]["P"+cfg.procs] = o.Log
			}
		}
		diverged := 0
		for s, m := range hashes {
			set := map[string]bool{}
			for _, h := range m {
				set[h] = true
			}
			if len(set) > 1 {
				diverged++
				fmt.Printf("SELFTEST %s seed %d diverged: %v\n", id, s, m)
				// keep the event logs of the diverging configurations for triage
				for cfgName, lg := range logs[s] {
					os.WriteFile(filepath.Join(os.TempDir(), fmt.Sprintf("selftest-%s-%d-%s.log", id, s, cfgName)), []byte(strings.Join(lg, "\n")+"\n"), 0o644)
				}
			}
		}
		if c.MapOrderSensitive {
			fmt.Printf("SELFTEST %s seeds=%d configs=4 diverged=%d (tolerated: event log depends on Go map iteration order inside data-server)\n", id, n, diverged)
			continue
		}
		fmt.Printf("SELFTEST %s seeds=%d configs=4 diverged=%d\n", id, n, diverged)
		bad += diverged
	}
	if bad > 0 {
		return 2
	}
	return 0
}
