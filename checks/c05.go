package checks

import (
	"fmt"
	"sort"
	"strings"
	"testing/synctest"
	"time"

	"verif/sim"
	"verif/world"
)

func runC05(rc *sim.RunCtx) {
	h, err := NewHist(rc, HistOpts{Profiles: []string{"core", "core", "presence"}, MinTx: 1, MaxTx: 6,
		DevKinds: []string{"direct", "direct", "gnmi-json", "gnmi-json_ietf", "netconf", "netconf-running"},
		Oracles:  map[string]bool{"C01": true, "C02": true}})
	if err != nil {
		rc.HarnessErr("world: %v", err)
		return
	}
	defer h.W.Close()
	n := tierLen(rc, h.Ops)
	step := 0
	for s := 0; s < n; s++ {
		h.AdvanceClock()
		h.Step(step)
		step++
		if !rc.T.Bool(2, 3) {
			continue
		}
		h.AdvanceClock()
		if !rollbackProbe(h, step) {
			return
		}
		step++
	}
}

// rollbackProbe applies one transaction and ends it by cancel or timer expiry; state must equal the snapshot.
func rollbackProbe(h *Hist, step int) bool {
	rc, w := h.RC, h.W
	tx := h.G.GenTx(h.M)
	if tx == nil {
		return true
	}
	tx.ID = fmt.Sprintf("rb%d", step)
	tx.Timeout = []uint32{5, 1, 30, 600}[rc.T.Choose(4)]
	byCancel := rc.T.Bool(1, 2)
	intBefore, err := w.DumpIntended()
	if err != nil {
		rc.HarnessErr("dump: %v", err)
		return false
	}
	devBefore := w.Dev.State.WithImpliedPresence(w.SI)
	rc.Step()
	how := "expiry"
	if byCancel {
		how = "cancel"
	}
	rc.Scenario("%d: [rollback by %s] %s", step, how, tx.Render())
	sets0 := len(w.Dev.Sets)
	res := ExecTx(rc, w, tx, 5*time.Second)
	w.NoteTimer(time.Duration(tx.Timeout) * time.Second)
	if !res.Accepted() {
		rc.Scenario("   -> not accepted: %v %v", normErr(res.Err), res.IntentErrors)
		return true
	}
	edits := renderEdits(tx)
	shadowed := false
	for _, is := range tx.Intents {
		if old := h.M.Live[is.Name]; old != nil {
			for p := range old.Leaves {
				if r := h.M.Ruler(p); r != nil && r.Name != is.Name {
					shadowed = true
				}
			}
		}
		rc.Probe("rb-edit-" + is.Edit)
	}
	if shadowed {
		rc.Probe("rb-shadowed")
	}
	if len(tx.Intents) > 1 {
		rc.Probe("rb-multi-intent")
	}
	rc.SigAdd(fmt.Sprintf("rb|%s|%s|sh%t|live%d", how, edits, shadowed, len(h.M.Live)))
	if len(h.M.Live) >= 1 && (shadowed || len(tx.Intents) > 1) {
		rc.NonTrivial()
	}
	// touched paths: everything the transaction's device traffic addressed
	var touched []world.Path
	for _, rec := range w.Dev.Sets[sets0:] {
		for _, u := range rec.Updates {
			touched = append(touched, u.Path)
		}
		touched = append(touched, rec.Deletes...)
	}
	f := map[string]string{"how": how, "edits": edits, "shadowed": fmt.Sprint(shadowed)}
	if byCancel {
		time.Sleep(time.Duration(rc.T.Choose(3)) * 300 * time.Millisecond)
		if err := Cancel(rc, w, tx.ID); err != nil {
			rc.Report(sim.Item{Prop: "C05", Clause: "C05.cancel-failed", Step: step, Fields: f, Detail: normErr(err)})
			return false
		}
	} else {
		d := time.Duration(tx.Timeout)*time.Second + 200*time.Millisecond
		time.Sleep(d)
		rc.AddSim(d.Seconds())
	}
	synctest.Wait()
	intAfter, err := w.DumpIntended()
	if err != nil {
		rc.HarnessErr("dump: %v", err)
		return false
	}
	ok := true
	a, b := diffSets(world.RenderEntries(intBefore, true), world.RenderEntries(intAfter, true))
	if len(a)+len(b) > 0 {
		ok = false
		ff := copyFields(f)
		ff["lost"] = fmt.Sprint(len(a))
		ff["extra"] = fmt.Sprint(len(b))
		rc.Report(sim.Item{Prop: "C05", Clause: "C05.intended-not-restored", Step: step, Fields: ff,
			Detail: fmt.Sprintf("after %s the intended store differs from before the transaction: missing %v; extra %v", how, a, b)})
	}
	// device: every touched path back to its old value / absence
	keys := map[string]world.Path{}
	for k, l := range devBefore {
		keys[k] = l.Path
	}
	devAfter := w.Dev.State.WithImpliedPresence(w.SI)
	for k, l := range devAfter {
		keys[k] = l.Path
	}
	ks := make([]string, 0, len(keys))
	for k := range keys {
		ks = append(ks, k)
	}
	sort.Strings(ks)
	var diffs []string
	for _, k := range ks {
		p := keys[k]
		isTouched := false
		for _, tp := range touched {
			if p.HasPrefix(tp) {
				isTouched = true
				break
			}
		}
		if !isTouched {
			continue
		}
		ob, inB := devBefore[k]
		oa, inA := devAfter[k]
		switch {
		case inB && !inA:
			diffs = append(diffs, fmt.Sprintf("%s: was %s, now absent", k, ob.Abs))
		case !inB && inA:
			diffs = append(diffs, fmt.Sprintf("%s: was absent, now %s", k, oa.Abs))
		case inB && inA && world.NormAbs(ob.Abs) != world.NormAbs(oa.Abs):
			diffs = append(diffs, fmt.Sprintf("%s: was %s, now %s", k, ob.Abs, oa.Abs))
		}
	}
	if len(diffs) > 0 {
		ok = false
		ff := copyFields(f)
		// was any differing path an unhandled running leaf (never defined by an intent before)?
		unh := false
		for _, d := range diffs {
			pth := strings.SplitN(d, ":", 2)[0]
			// unhandled running config: on the device before the transaction, defined by no live intent
			if _, onDev := devBefore[pth]; onDev && len(h.M.Definers(pth)) == 0 {
				unh = true
			}
		}
		ff["unhandled_running"] = fmt.Sprint(unh)
		rc.Report(sim.Item{Prop: "C05", Clause: "C05.device-not-restored", Step: step, Fields: ff,
			Detail: fmt.Sprintf("after %s paths touched by the transaction do not have their old value: %s", how, strings.Join(diffs, "; "))})
	}
	// a new transaction must be accepted now (checked by the next history step: it reports C06 if locked)
	return ok
}

func init() {
	Register(&sim.Check{
		ID: "C05", Level: "exploration", Run: runC05,
		Rule: "C01 histories (confirmed); after most steps one further generated transaction (any edit kinds, 1-3 intents, timeout 1/5/30/600 s) is applied and then ended by TransactionCancel or by letting the fake clock pass its timeout. Device: direct or the real gnmiTarget (json / json_ietf). The intended store dump must equal the snapshot taken before the transaction and every device path the transaction's traffic touched must have its old value or absence. Non-trivial = the transaction edits a shadowed intent or has several intents; distinct = signature (cancel/expiry, edit kinds, shadowed, #live).",
		Real: realCore, Stub: stubCore,
		RequiredProbes: []string{"rb-shadowed", "rb-multi-intent", "rb-edit-create", "rb-edit-delete", "rb-edit-reprio"},
		QuickSeconds:   35, ThoroughSeconds: 600,
	})
}
