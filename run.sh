#!/bin/bash
# Entry point of every check: rebuilds the simulator from /repo's working tree (tag verif) and runs it.
#   ./run.sh setup | ./run.sh <ID> quick|thorough | ./run.sh <ID> --replay <file> | ./run.sh selftest [IDs]
set -u
cd "$(dirname "$0")"
export GOFLAGS=-mod=mod GOPROXY=off GOSUMDB=off GOTOOLCHAIN=local
export VERIF_DIR="$(pwd)"
GO=go1.26.8
command -v $GO >/dev/null 2>&1 || GO=/opt/veriftools/go1.26.8/bin/go
mkdir -p bin evidence replays
build() {
  # go.sum of the harness module must cover the repository's dependencies
  if ! $GO test -c -tags verif -o bin/vsim.test ./cmd/vsim >bin/build.log 2>&1; then
    echo "BUILD FAILED (harness trouble, not a violation):" >&2
    tail -30 bin/build.log >&2
    exit 2
  fi
}
case "${1:-}" in
  setup)
    build
    echo "setup ok"
    exit 0;;
  "")
    echo "usage: $0 setup | <ID> quick|thorough | <ID> --replay <file> | selftest [IDs]" >&2
    exit 2;;
esac
if [ "${1:-}" = "C17" ] && [ "${2:-${VERIF_TIER:-quick}}" = "thorough" ]; then
  # arm B of C17: the same simulator built with the race detector
  if ! $GO test -race -c -tags verif -o bin/vsim.test ./cmd/vsim >bin/build.log 2>&1; then
    echo "RACE BUILD FAILED (harness trouble, not a violation):" >&2; tail -30 bin/build.log >&2; exit 2
  fi
  export GORACE="halt_on_error=0"
else
  build
fi
export VSIM_SCRATCH="${VSIM_SCRATCH:-/dev/shm}"
# scratch directories of workers that were killed (watchdog, crash triage) stay behind: drop what has not been touched for 2 h
find "$VSIM_SCRATCH" -maxdepth 1 -name 'vsim-*' -mmin +120 -exec rm -rf {} + 2>/dev/null
VSIM_ARGS="$*" exec bin/vsim.test -test.run '^TestVsim$' -test.timeout 0
