package world

import (
	"context"
	"errors"
	"fmt"
	"sort"
	"strings"
	"time"

	"github.com/sdcio/cache/proto/cachepb"
	sdcpb "github.com/sdcio/sdc-protos/sdcpb"
	"google.golang.org/grpc"

	"github.com/sdcio/data-server/pkg/cache"
	dschema "github.com/sdcio/data-server/pkg/schema"
)

// FaultPlan numbers every collaborator call while Active and injects one fault at call index Target.
type FaultPlan struct {
	Active  bool
	Counter int
	Target  int    // -1 = none
	Kind    string // error | torn | lost-ack | empty | early | crash
	Fired   bool
	Calls   []string // recorded call kinds while Active (counting pass)
	Dead    bool     // fail-stop: every call of this instance fails fast and has no effect
	Logf    func(string, ...any)
	OnFire  func(kind, call string)
}

func NewFaultPlan(logf func(string, ...any)) *FaultPlan { return &FaultPlan{Target: -1, Logf: logf} }

var ErrInjected = errors.New("injected collaborator failure")
var ErrDead = errors.New("instance is dead (fail-stop)")

// next registers a call; returns the fault kind to apply ("" = none).
func (p *FaultPlan) next(call string) string {
	if p == nil {
		return ""
	}
	if p.Dead {
		return "dead"
	}
	if !p.Active {
		return ""
	}
	idx := p.Counter
	p.Counter++
	p.Calls = append(p.Calls, call)
	if idx == p.Target && !p.Fired {
		p.Fired = true
		if p.Logf != nil {
			p.Logf("FAULT %s at call #%d %s", p.Kind, idx, call)
		}
		if p.OnFire != nil {
			p.OnFire(p.Kind, call)
		}
		if p.Kind == "crash" {
			p.Dead = true
			return "dead"
		}
		return p.Kind
	}
	return ""
}

// NextCall numbers a call made through a harness-owned seam (the device) in the same sequence.
func (p *FaultPlan) NextCall(call string) string { return p.next(call) }

// FCache decorates the real cache client.
type FCache struct {
	cache.Client
	Plan *FaultPlan
}

func storeName(o *cache.Opts) string {
	if o == nil {
		return "CONFIG"
	}
	return o.Store.String()
}

func (c *FCache) Modify(ctx context.Context, name string, opts *cache.Opts, dels [][]string, upds []*cache.Update) error {
	switch c.Plan.next("cache.Modify:" + storeName(opts)) {
	case "dead":
		return ErrDead
	case "error", "empty", "early":
		return ErrInjected
	case "torn":
		// a prefix of the deletes and writes is applied, then the call fails. The SUT builds these lists by ranging
		// over Go maps; sort them so that the torn prefix is a function of the content, not of the iteration order.
		dels = append([][]string(nil), dels...)
		sort.Slice(dels, func(i, j int) bool { return strings.Join(dels[i], ",") < strings.Join(dels[j], ",") })
		upds = append([]*cache.Update(nil), upds...)
		sort.Slice(upds, func(i, j int) bool {
			return strings.Join(upds[i].GetPath(), ",") < strings.Join(upds[j].GetPath(), ",")
		})
		nd, nu := len(dels)/2, 0
		if nd == len(dels) {
			nu = len(upds) / 2
		}
		if len(dels) == 1 && len(upds) > 0 {
			nd, nu = 1, len(upds)/2
		}
		_ = c.Client.Modify(ctx, name, opts, dels[:nd], upds[:nu])
		return ErrInjected
	case "lost-ack":
		_ = c.Client.Modify(ctx, name, opts, dels, upds)
		return ErrInjected
	}
	return c.Client.Modify(ctx, name, opts, dels, upds)
}

func (c *FCache) Read(ctx context.Context, name string, opts *cache.Opts, paths [][]string, period time.Duration) []*cache.Update {
	switch c.Plan.next("cache.Read:" + storeName(opts)) {
	case "dead", "error", "empty", "torn", "lost-ack":
		return nil
	case "early":
		r := c.Client.Read(ctx, name, opts, paths, period)
		sort.SliceStable(r, func(i, j int) bool {
			a, b := strings.Join(r[i].GetPath(), ",")+"|"+r[i].Owner(), strings.Join(r[j].GetPath(), ",")+"|"+r[j].Owner()
			return a < b
		})
		return r[:len(r)/2]
	}
	return c.Client.Read(ctx, name, opts, paths, period)
}

func (c *FCache) ReadCh(ctx context.Context, name string, opts *cache.Opts, paths [][]string, period time.Duration) chan *cache.Update {
	k := c.Plan.next("cache.ReadCh:" + storeName(opts))
	switch k {
	case "dead", "error", "empty", "torn", "lost-ack":
		ch := make(chan *cache.Update)
		close(ch)
		return ch
	case "early":
		in := c.Client.ReadCh(ctx, name, opts, paths, period)
		out := make(chan *cache.Update)
		go func() {
			defer close(out)
			n := 0
			for u := range in {
				if n < 1 {
					out <- u
				}
				n++
			}
		}()
		return out
	}
	return c.Client.ReadCh(ctx, name, opts, paths, period)
}

func (c *FCache) GetKeys(ctx context.Context, name string, store cachepb.Store) (chan *cache.Update, error) {
	switch c.Plan.next("cache.GetKeys:" + store.String()) {
	case "dead":
		return nil, ErrDead
	case "error", "empty", "early", "torn", "lost-ack":
		return nil, ErrInjected
	}
	return c.Client.GetKeys(ctx, name, store)
}

func (c *FCache) Exists(ctx context.Context, name string) (bool, error) {
	if c.Plan != nil && c.Plan.Dead {
		return false, ErrDead
	}
	return c.Client.Exists(ctx, name)
}

// FSchema decorates the real schema client.
type FSchema struct {
	dschema.Client
	Plan *FaultPlan
}

func (s *FSchema) GetSchema(ctx context.Context, in *sdcpb.GetSchemaRequest, opts ...grpc.CallOption) (*sdcpb.GetSchemaResponse, error) {
	switch s.Plan.next("schema.GetSchema") {
	case "dead":
		return nil, ErrDead
	case "":
	default:
		return nil, fmt.Errorf("schema server unavailable: %w", ErrInjected)
	}
	return s.Client.GetSchema(ctx, in, opts...)
}

// Restart simulates a process restart over the same cache directory: the old instance is dead (its plan is
// marked Dead by the caller), its contexts are cancelled, the cache is closed and reopened, a new datastore and
// server are built; the device keeps its state.
func (w *World) Restart() error {
	w.Cancel()
	if w.RawCache != nil {
		w.RawCache.Close()
		w.RawCache = nil
	}
	return w.boot()
}
