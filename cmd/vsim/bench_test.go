package vsim

import (
	"fmt"
	"os"
	"testing"
	"time"

	"verif/checks"
	"verif/sim"
)

func TestBenchOne(t *testing.T) {
	id := os.Getenv("VSIM_BENCH")
	if id == "" {
		t.Skip()
	}
	c := checks.Get(id)
	for i := 0; i < 5; i++ {
		st := time.Now()
		o := sim.RunOne(t, c, &sim.Request{Prop: id, Tier: "quick", Seed: sim.SplitMix(1, uint64(i))})
		fmt.Printf("run %d: %v steps=%d sim=%.0f items=%d herr=%s\n", i, time.Since(st), o.Steps, o.SimSeconds, len(o.Items), o.HarnessErr)
	}
}
