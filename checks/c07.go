package checks

import (
	"fmt"
	"sort"
	"strings"
	"time"

	"github.com/sdcio/data-server/pkg/cache"
	dschema "github.com/sdcio/data-server/pkg/schema"

	"verif/sim"
	"verif/world"
)

type c07snap struct {
	dev      []string
	intended []string
	config   []string
}

func takeSnap(w *world.World) (*c07snap, error) {
	i, err := w.DumpIntended()
	if err != nil {
		return nil, err
	}
	c, err := w.DumpConfig()
	if err != nil {
		return nil, err
	}
	return &c07snap{dev: w.Dev.State.WithImpliedPresence(w.SI).Render(), intended: world.RenderEntries(i, true), config: world.RenderEntries(c, false)}, nil
}

type c07world struct {
	w    *world.World
	plan *world.FaultPlan
}

func newC07World(rc *sim.RunCtx, seqValidation bool, devKind string) (*c07world, error) {
	cw := &c07world{}
	cw.plan = world.NewFaultPlan(rc.Logf)
	w, err := world.New(rc, world.Opts{DisableConcurrency: seqValidation, DevKind: devKind,
		WrapCache:  func(c cache.Client) cache.Client { return &world.FCache{Client: c, Plan: cw.plan} },
		WrapSchema: func(c dschema.Client) dschema.Client { return &world.FSchema{Client: c, Plan: cw.plan} },
	})
	if err != nil {
		return nil, err
	}
	cw.w = w
	w.Dev.Hook = func(int) error {
		switch cw.plan.NextCall("target.Set") {
		case "dead":
			return world.ErrDead
		case "dev-reject":
			return world.ErrDevReject
		case "dev-unreachable":
			return world.ErrDevUnreachable
		case "dev-lost-reply":
			w.Dev.NextFault = func(int) world.DevFault { w.Dev.NextFault = nil; return world.DevLostReply }
		}
		return nil
	}
	return cw, nil
}

func faultKindsFor(call string) []string {
	switch {
	case call == "target.Set":
		return []string{"dev-reject", "dev-unreachable", "dev-lost-reply", "crash"}
	case strings.HasPrefix(call, "cache.Modify"):
		return []string{"error", "torn", "lost-ack", "crash"}
	case strings.HasPrefix(call, "cache.Read"):
		return []string{"empty", "early", "crash"}
	case strings.HasPrefix(call, "cache.GetKeys"):
		return []string{"error", "crash"}
	case call == "schema.GetSchema":
		return []string{"error", "crash"}
	}
	return nil
}

type c07fault struct {
	idx  int
	call string
	kind string
}

func runC07(rc *sim.RunCtx) {
	t := rc.T
	// validation runs sequentially here: with concurrent validators the numbering of collaborator calls would not be
	// a function of the tape (concurrent validation is exercised by the other checks and by C17)
	seqVal := true
	profile := []string{"core", "core", "presence"}[t.Choose(3)]
	// device: the direct one, or the real gnmiTarget in front of the in-process gNMI client (faults are then injected at the wire)
	devKind := []string{"", "", "gnmi-proto", "gnmi-json_ietf", "netconf", "netconf-running"}[t.Choose(6)]
	if profile == "presence" && devKind == "gnmi-proto" {
		devKind = "gnmi-json" // KF-43: a presence container has no scalar form on the wire
	}
	rc.Probe("dev-" + devName(devKind))
	si, err := world.LoadSchema()
	if err != nil {
		rc.HarnessErr("schema: %v", err)
		return
	}
	cfg := SwarmCfg(t, profile, nil)
	cfg.FormW = []int{1, 0, 0, 0}
	g := NewGen(t, si, cfg)
	m := NewModel(si)
	n := 2 + t.Choose(4)
	if rc.Tier == "thorough" {
		n = 2 + t.Choose(8)
	}
	var hist []*TxSpec
	for i := 0; i < n; i++ {
		tx := g.GenTx(m)
		if tx == nil {
			continue
		}
		hist = append(hist, tx)
		m.Accept(tx)
	}
	if len(hist) < 2 {
		return
	}
	target := t.Choose(len(hist))
	coldSchema := t.Bool(1, 3) // restart right before the target transaction so the schema index is cold
	rc.Scenario("profile=%s history=%d target=#%d coldschema=%t device=%s", profile, len(hist), target, coldSchema, devName(devKind))
	for i, tx := range hist {
		rc.Scenario("%d: %s", i, tx.Render())
	}

	// ---- reference run (fault free) with a counting pass on the target transaction ----
	ref, err := newC07World(rc, seqVal, devKind)
	if err != nil {
		rc.HarnessErr("world: %v", err)
		return
	}
	var refSnaps []*c07snap
	var calls []string
	refOK := true
	for i, tx := range hist {
		time.Sleep(time.Second)
		rc.AddSim(1)
		if i == target {
			if coldSchema {
				if err := ref.w.Restart(); err != nil {
					rc.HarnessErr("restart: %v", err)
					ref.w.Close()
					return
				}
			}
			ref.plan.Active = true
		}
		res := ExecTx(rc, ref.w, tx, 5*time.Second)
		ref.w.NoteTimer(30 * time.Second)
		if i == target {
			ref.plan.Active = false
			calls = append([]string(nil), ref.plan.Calls...)
		}
		if !res.Accepted() {
			refOK = false
			break
		}
		Confirm(rc, ref.w, tx.ID)
		s, err := takeSnap(ref.w)
		if err != nil {
			rc.HarnessErr("snap: %v", err)
			ref.w.Close()
			return
		}
		refSnaps = append(refSnaps, s)
	}
	ref.w.Close()
	if !refOK {
		rc.Scenario("reference run: a transaction was not accepted; run skipped")
		return
	}
	rc.Scenario("target transaction makes %d collaborator calls", len(calls))
	// ---- choose the faults ----
	var all []c07fault
	for i, c := range calls {
		for _, k := range faultKindsFor(c) {
			all = append(all, c07fault{i, c, k})
		}
	}
	if len(all) == 0 {
		rc.HarnessErr("counting pass saw no collaborator call")
		return
	}
	var chosen []c07fault
	max := 5
	if rc.Tier == "thorough" {
		max = 14
	}
	// always one device fault and one Modify fault, the rest sampled
	pick := func(pred func(c07fault) bool) {
		var c []c07fault
		for _, f := range all {
			if pred(f) {
				c = append(c, f)
			}
		}
		if len(c) > 0 {
			chosen = append(chosen, c[t.Choose(len(c))])
		}
	}
	pick(func(f c07fault) bool { return f.call == "target.Set" })
	pick(func(f c07fault) bool { return strings.HasPrefix(f.call, "cache.Modify") })
	for len(chosen) < max {
		chosen = append(chosen, all[t.Choose(len(all))])
	}
	preSnapIdx := target - 1
	if t.Bool(1, 4) {
		// the cancel leg: the target transaction is left open and cancelled; one collaborator call of the rollback fails once
		c07cancelLeg(rc, hist, target, seqVal, devKind)
		return
	}
	for _, fl := range chosen {
		if !c07one(rc, hist, target, coldSchema, seqVal, devKind, fl, refSnaps, preSnapIdx) {
			return
		}
	}
}

// c07cancelLeg: the request that meets the fault is TransactionCancel. History up to the target is applied and confirmed, the target
// is applied and left open, then cancelled (a) fault free with a counting pass over the rollback's collaborator calls - the
// reference - and (b) per sampled call with that call failing once; a Cancel that returned an error is repeated once the fault is
// gone and must then succeed and end in the reference state, and the datastore must accept a new transaction.
func c07cancelLeg(rc *sim.RunCtx, hist []*TxSpec, target int, seqVal bool, devKind string) {
	t := rc.T
	rc.Probe("cancel-leg")
	prep := func() (*c07world, bool) {
		cw, err := newC07World(rc, seqVal, devKind)
		if err != nil {
			rc.HarnessErr("world: %v", err)
			return nil, false
		}
		for i := 0; i <= target; i++ {
			time.Sleep(time.Second)
			rc.AddSim(1)
			res := ExecTx(rc, cw.w, hist[i], 5*time.Second)
			cw.w.NoteTimer(30 * time.Second)
			if !res.Accepted() {
				cw.w.Close()
				return nil, false
			}
			if i < target {
				Confirm(rc, cw.w, hist[i].ID)
			}
		}
		return cw, true
	}
	// (a) reference
	ref, ok := prep()
	if !ok {
		return
	}
	ref.plan.Active = true
	err := Cancel(rc, ref.w, hist[target].ID)
	ref.plan.Active = false
	calls := append([]string(nil), ref.plan.Calls...)
	if err != nil {
		ref.w.Close()
		rc.Scenario("cancel leg: the fault-free cancel failed (%v); leg skipped", normErr(err))
		return
	}
	refSnap, serr := takeSnap(ref.w)
	ref.w.Close()
	if serr != nil {
		rc.HarnessErr("snap: %v", serr)
		return
	}
	rc.Scenario("cancel leg: TransactionCancel(%s) makes %d collaborator calls", hist[target].ID, len(calls))
	var all []c07fault
	for i, c := range calls {
		switch {
		case c == "target.Set":
			all = append(all, c07fault{i, c, "dev-reject"}, c07fault{i, c, "dev-unreachable"})
		case strings.HasPrefix(c, "cache.Modify"), strings.HasPrefix(c, "cache.GetKeys"), c == "schema.GetSchema":
			all = append(all, c07fault{i, c, "error"})
		}
	}
	if len(all) == 0 {
		return
	}
	n := 3
	if rc.Tier == "thorough" {
		n = 8
	}
	for j := 0; j < n; j++ {
		fl := all[t.Choose(len(all))]
		cw, ok := prep()
		if !ok {
			return
		}
		rc.Step()
		rc.NonTrivial()
		rc.Fault("cancel:" + fl.kind + "@" + strings.SplitN(fl.call, ":", 2)[0])
		rc.SigAdd(fmt.Sprintf("cancel|%s|%s", fl.kind, fl.call))
		rc.Logf("=== cancel fault run: %s at call #%d (%s) of the cancel of transaction #%d", fl.kind, fl.idx, fl.call, target)
		f := map[string]string{"fault": fl.kind, "call": fl.call, "callidx": fmt.Sprint(fl.idx), "edits": renderEdits(hist[target]), "request": "cancel"}
		cw.plan.Target, cw.plan.Kind, cw.plan.Active = fl.idx, fl.kind, true
		err1 := Cancel(rc, cw.w, hist[target].ID)
		cw.plan.Active = false
		if cw.plan.Fired && err1 != nil {
			time.Sleep(time.Second)
			rc.AddSim(1)
			if err2 := Cancel(rc, cw.w, hist[target].ID); err2 != nil {
				ff := copyFields(f)
				ff["error"] = normErr(err2)
				rc.Report(sim.Item{Prop: "C07", Clause: "C07.cancel-retry-refused", Fields: ff, Detail: fmt.Sprintf("TransactionCancel failed on an injected fault (%v); repeated once the fault was gone it failed again: %v", normErr(err1), normErr(err2))})
				cw.w.Close()
				continue
			}
		}
		if cw.plan.Fired {
			snap, err := takeSnap(cw.w)
			if err != nil {
				rc.HarnessErr("snap: %v", err)
				cw.w.Close()
				return
			}
			for _, d := range []struct {
				name string
				a, b []string
			}{{"device", refSnap.dev, snap.dev}, {"intended", refSnap.intended, snap.intended}} { // (the statement names device and intent store; the running mirror is also fed by sync)
				x, y := diffSets(d.a, d.b)
				if len(x)+len(y) > 0 {
					ff := copyFields(f)
					ff["store"] = d.name
					ff["device"] = devName(devKind)
					ff["extra_merge_parents_only"] = fmt.Sprint(d.name == "device" && mergeParentsOnly(cw.w, x, y))
					rc.Report(sim.Item{Prop: "C07", Clause: "C07.cancel-diverged-after-retry", Fields: ff, Detail: fmt.Sprintf("%s after the (repeated) cancel differs from the fault-free cancel: missing %v extra %v", d.name, x, y)})
				}
			}
			// the datastore must be free again
			probe := &TxSpec{ID: "after-cancel", DryRun: true, Intents: hist[target].Intents}
			if r := ExecTx(rc, cw.w, probe, 5*time.Second); r.Err != nil && strings.Contains(r.Err.Error(), "locked") {
				rc.Report(sim.Item{Prop: "C07", Clause: "C07.locked-after-cancel", Fields: f, Detail: "the datastore refuses a new transaction after the cancel: " + normErr(r.Err)})
			}
		} else {
			rc.Probe("fault-not-reached")
		}
		cw.w.Close()
	}
}

// c07one replays the history in a fresh world with one fault in the target transaction, then retries.
func c07one(rc *sim.RunCtx, hist []*TxSpec, target int, coldSchema, seqVal bool, devKind string, fl c07fault, refSnaps []*c07snap, preIdx int) bool {
	cw, err := newC07World(rc, seqVal, devKind)
	if err != nil {
		rc.HarnessErr("world: %v", err)
		return false
	}
	defer func() { cw.w.Close() }()
	w := cw.w
	rc.Step()
	rc.Fault(fl.kind + "@" + strings.SplitN(fl.call, ":", 2)[0])
	pos := "mid"
	rc.SigAdd(fmt.Sprintf("%s|%s|%s", fl.kind, fl.call, pos))
	rc.NonTrivial()
	rc.Logf("=== fault run: %s at call #%d (%s) of transaction #%d", fl.kind, fl.idx, fl.call, target)
	f := map[string]string{"fault": fl.kind, "call": fl.call, "callidx": fmt.Sprint(fl.idx), "edits": renderEdits(hist[target]), "device": devName(devKind)}
	for i := 0; i < target; i++ {
		time.Sleep(time.Second)
		rc.AddSim(1)
		res := ExecTx(rc, w, hist[i], 5*time.Second)
		w.NoteTimer(30 * time.Second)
		if !res.Accepted() {
			rc.HarnessErr("fault run diverged before the fault: tx %d not accepted", i)
			return false
		}
		Confirm(rc, w, hist[i].ID)
	}
	time.Sleep(time.Second)
	rc.AddSim(1)
	if coldSchema {
		if err := w.Restart(); err != nil {
			rc.HarnessErr("restart: %v", err)
			return false
		}
	}
	before, err := takeSnap(w)
	if err != nil {
		rc.HarnessErr("snap: %v", err)
		return false
	}
	tx := *hist[target]
	cw.plan.Target, cw.plan.Kind, cw.plan.Active = fl.idx, fl.kind, true
	res := ExecTx(rc, w, &tx, 5*time.Second)
	cw.plan.Active = false
	fired := cw.plan.Fired
	if !fired {
		rc.Probe("fault-not-reached")
		// the call sequence differed from the counting pass (legal: e.g. memoised schema); nothing injected
	}
	crashed := cw.plan.Dead
	isDev := strings.HasPrefix(fl.kind, "dev-")
	if fired && isDev && res.Err == nil {
		rc.Report(sim.Item{Prop: "C07", Clause: "C07.device-failure-not-reported", Fields: f, Detail: "the device failed the Set but TransactionSet returned no error"})
	}
	if fired && !crashed && (fl.kind == "dev-reject" || fl.kind == "dev-unreachable") {
		after, err := takeSnap(w)
		if err == nil {
			a, b := diffSets(before.intended, after.intended)
			if len(a)+len(b) > 0 {
				rc.Report(sim.Item{Prop: "C07", Clause: "C07.persisted-despite-device-failure", Fields: f, Detail: fmt.Sprintf("intended store changed by a transaction the device refused: -%v +%v", a, b)})
			}
			a, b = diffSets(before.config, after.config)
			if len(a)+len(b) > 0 {
				rc.Report(sim.Item{Prop: "C07", Clause: "C07.running-changed-despite-device-failure", Fields: f, Detail: fmt.Sprintf("running mirror changed by a transaction the device refused: -%v +%v", a, b)})
			}
		}
	}
	// never wrong data: every device leaf is from the old or the new merged configuration
	if fired {
		oldS, newS := map[string]bool{}, map[string]bool{}
		if preIdx >= 0 {
			for _, l := range refSnaps[preIdx].dev {
				oldS[l] = true
			}
		}
		for _, l := range before.dev {
			oldS[l] = true
		}
		for _, l := range refSnaps[target].dev {
			newS[l] = true
		}
		for _, l := range w.Dev.State.WithImpliedPresence(w.SI).Render() {
			if !oldS[l] && !newS[l] {
				rc.Report(sim.Item{Prop: "C07", Clause: "C07.wrong-data-after-fault", Fields: f, Detail: "device holds " + l + " which is neither part of the old nor of the new merged configuration"})
			}
		}
	}
	if crashed {
		rc.Probe("restart")
		cw.plan = world.NewFaultPlan(rc.Logf)
		if err := w.Restart(); err != nil {
			rc.HarnessErr("restart: %v", err)
			return false
		}
	} else if res.Accepted() {
		if err := Confirm(rc, w, tx.ID); err != nil {
			rc.Report(sim.Item{Prop: "C07", Clause: "C07.confirm-after-fault", Fields: f, Detail: normErr(err)})
		}
	}
	// retry once the fault is gone
	time.Sleep(time.Second)
	rc.AddSim(1)
	retry := tx
	retry.ID = tx.ID + "-retry"
	rres := ExecTx(rc, w, &retry, 5*time.Second)
	w.NoteTimer(30 * time.Second)
	if !rres.Accepted() {
		ff := copyFields(f)
		ff["error"] = normErr(rres.Err)
		ff["locked"] = fmt.Sprint(rres.Err != nil && strings.Contains(rres.Err.Error(), "locked"))
		rc.Report(sim.Item{Prop: "C07", Clause: "C07.retry-refused", Fields: ff, Detail: fmt.Sprintf("retry of the same request after the fault was not accepted: %s %v", normErr(rres.Err), rres.IntentErrors)})
		return true
	}
	Confirm(rc, w, retry.ID)
	cmp := func(i int, when string) {
		s, err := takeSnap(w)
		if err != nil {
			rc.HarnessErr("snap: %v", err)
			return
		}
		ff := copyFields(f)
		ff["when"] = when
		a, b := diffSets(refSnaps[i].dev, s.dev)
		if oe := orphanEntries(hist, target); len(oe) > 0 {
			if a2, b2 := dropUnder(w, a, oe), dropUnder(w, b, oe); len(a2)+len(b2) < len(a)+len(b) {
				rc.Probe("orphan-mixed-paths-left-out")
				a, b = a2, b2
			}
		}
		if len(a)+len(b) > 0 {
			// is the difference nothing but key leaves of list entries that are on the device in addition?
			keyOnly := len(a) == 0
			for _, e := range b {
				n := w.SI.Node(mustPath(w, strings.SplitN(e, " = ", 2)[0]))
				if n == nil || !n.IsKeyLeaf() {
					keyOnly = false
				}
			}
			ff["extra_key_leaves_only"] = fmt.Sprint(keyOnly)
			ff["extra_merge_parents_only"] = fmt.Sprint(mergeParentsOnly(w, a, b))
			rc.Report(sim.Item{Prop: "C07", Clause: "C07.device-diverged-after-retry", Fields: ff, Detail: fmt.Sprintf("device differs from the fault-free run %s: missing %v extra %v", when, a, b)})
		}
		a, b = diffSets(refSnaps[i].intended, s.intended)
		if len(a)+len(b) > 0 {
			rc.Report(sim.Item{Prop: "C07", Clause: "C07.intended-diverged-after-retry", Fields: ff, Detail: fmt.Sprintf("intended store differs from the fault-free run %s: missing %v extra %v", when, a, b)})
		}
	}
	cmp(target, "after-retry")
	// The statement promises the device configuration and the intent store after the retry, not the running mirror: a
	// fault in its write-back (or a restart before it) may leave it behind until the next sync from the device, which this
	// check does not run. The rest of the history is only a fair witness of hidden damage if it starts from the same mirror.
	runningBehind := false
	if s, err := takeSnap(w); err == nil {
		if a, b := diffSets(refSnaps[target].config, s.config); len(a)+len(b) > 0 {
			runningBehind = true
			rc.Probe("running-mirror-behind-after-retry")
		}
	}
	if runningBehind {
		return true
	}
	for i := target + 1; i < len(hist); i++ {
		time.Sleep(time.Second)
		rc.AddSim(1)
		r := ExecTx(rc, w, hist[i], 5*time.Second)
		if !r.Accepted() {
			ff := copyFields(f)
			ff["when"] = "later"
			rc.Report(sim.Item{Prop: "C07", Clause: "C07.later-transaction-refused", Fields: ff, Detail: fmt.Sprintf("transaction #%d accepted in the fault-free run was refused after fault+retry: %s %v", i, normErr(r.Err), r.IntentErrors)})
			return true
		}
		Confirm(rc, w, hist[i].ID)
	}
	if target+1 < len(hist) && !runningBehind {
		cmp(len(hist)-1, "at-end")
	}
	_ = sort.Strings
	return true
}

// orphanEntries returns the list-entry prefixes (and plain leaf paths) of what the intents that transaction #target removes
// with the orphan flag had defined before. What an orphan delete leaves on the device inside a list entry that another intent
// of the same transaction deletes is not specified (C01's statement leaves it open) and follows map iteration order inside
// data-server; the comparison with the fault-free run leaves those paths out when the transaction mixes orphan and other edits.
func orphanEntries(hist []*TxSpec, target int) []world.Path {
	var out []world.Path
	if len(hist[target].Intents) < 2 {
		return nil
	}
	for _, is := range hist[target].Intents {
		if !is.Orphan {
			continue
		}
		for i := target - 1; i >= 0; i-- {
			found := false
			for _, prev := range hist[i].Intents {
				if prev.Name == is.Name && !prev.Delete {
					for _, l := range prev.Leaves {
						if pre := l.Path.ListEntryPrefixes(); len(pre) > 0 {
							out = append(out, pre[0])
						} else {
							out = append(out, l.Path)
						}
					}
					found = true
				}
			}
			if found {
				break
			}
		}
	}
	return out
}

func dropUnder(w *world.World, items []string, prefixes []world.Path) []string {
	if len(prefixes) == 0 {
		return items
	}
	var out []string
	for _, e := range items {
		p := mustPath(w, strings.SplitN(e, " = ", 2)[0])
		covered := false
		for _, pre := range prefixes {
			if p.HasPrefix(pre) {
				covered = true
			}
		}
		if !covered {
			out = append(out, e)
		}
	}
	return out
}

// mergeParentsOnly: the device holds nothing more than key leaves of list entries and bare presence containers in addition -
// the nodes an XML edit creates on a NETCONF device merely by naming them as parents of a delete.
func mergeParentsOnly(w *world.World, missing, extra []string) bool {
	if len(missing) > 0 || len(extra) == 0 {
		return false
	}
	for _, e := range extra {
		n := w.SI.Node(mustPath(w, strings.SplitN(e, " = ", 2)[0]))
		if n == nil || !(n.IsKeyLeaf() || (n.Kind == world.KContainer && n.Presence)) {
			return false
		}
	}
	return true
}

func init() {
	Register(&sim.Check{
		ID: "C07", Level: "fault_enumeration", Run: runC07,
		Rule: "per run: a generated history (2-5 transactions, thorough up to 9) is executed fault-free (reference) with a counting pass that numbers every collaborator call of one chosen transaction (target.Set, cache Read/ReadCh/GetKeys/Modify, schema GetSchema; cold schema index after a restart in 1/3 of runs). Then for sampled (call index, kind) pairs - always one device fault and one cache Modify fault; kinds: device reject/unreachable/lost-reply, cache error/torn write/lost ack/empty or short read, schema error, fail-stop crash + restart over the same badger directory - the history is replayed in a fresh world with that single fault (at the wire when the device is the real gnmiTarget, half of the runs), the same request is retried and the history continues. Cancel leg (a quarter of the runs): the target transaction is left open and cancelled, one collaborator call of the rollback fails once, a Cancel that failed is repeated and must succeed and end in the state of the fault-free cancel. Every fault case counts as non-trivial; distinct = (kind, collaborator call).",
		Real: append(append([]string{}, realCore...), "fault decorators sit between the real Datastore and the real cache / schema clients"), Stub: stubCore,
		RequiredProbes: []string{"restart"}, MapOrderSensitive: true,
		QuickSeconds: 40, ThoroughSeconds: 720,
	})
}
