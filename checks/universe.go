// Package checks holds the per-property simulated checks (DESIGN §4).
package checks

import (
	"encoding/json"
	"fmt"
	"sort"
	"strconv"
	"strings"

	sdcpb "github.com/sdcio/sdc-protos/sdcpb"
	"google.golang.org/protobuf/types/known/emptypb"

	"verif/world"
)

// Slot is a candidate leaf instance with its value alphabet (lexical forms).
type Slot struct {
	Path world.Path
	Node *world.Node
	Lex  []string // lexical values; for leaf-lists comma separated; for presence/empty ""
	// NInvalid: the last NInvalid lexical values violate a constraint of the leaf itself
	NInvalid int
}

// MLeaf is a leaf as the model knows it.
type MLeaf struct {
	Path world.Path
	Node *world.Node
	Lex  string
	Abs  string
}

func (l *MLeaf) Key() string { return l.Path.String() }

func absOf(n *world.Node, lex string) string {
	switch {
	case n.Kind == world.KLeafList:
		parts := []string{}
		if lex != "" {
			for _, e := range strings.Split(lex, ",") {
				parts = append(parts, world.AbsScalarFromString(n.Type, e))
			}
		}
		sort.Strings(parts)
		return "ll:[" + strings.Join(parts, "|") + "]"
	case n.Kind == world.KContainer:
		return "empty"
	default:
		return world.AbsScalarFromString(n.Type, lex)
	}
}

func NewMLeaf(si *world.SchemaInfo, p world.Path, lex string) *MLeaf {
	n := si.Node(p)
	if n == nil {
		panic("NewMLeaf: unknown schema node for " + p.String())
	}
	return &MLeaf{Path: p, Node: n, Lex: lex, Abs: absOf(n, lex)}
}

// scalarTV builds a typed value for one lexical scalar in the requested input form.
func scalarTV(t *sdcpb.SchemaLeafType, lex string, form string) *sdcpb.TypedValue {
	if form == "string" || form == "string!" {
		return &sdcpb.TypedValue{Value: &sdcpb.TypedValue_StringVal{StringVal: lex}}
	}
	switch t.GetType() {
	case "uint8", "uint16", "uint32", "uint64":
		if v, err := strconv.ParseUint(lex, 10, 64); err == nil {
			return &sdcpb.TypedValue{Value: &sdcpb.TypedValue_UintVal{UintVal: v}}
		}
	case "int8", "int16", "int32", "int64":
		if v, err := strconv.ParseInt(lex, 10, 64); err == nil {
			return &sdcpb.TypedValue{Value: &sdcpb.TypedValue_IntVal{IntVal: v}}
		}
	case "boolean":
		if lex == "true" || lex == "false" {
			return &sdcpb.TypedValue{Value: &sdcpb.TypedValue_BoolVal{BoolVal: lex == "true"}}
		}
	case "empty":
		return &sdcpb.TypedValue{Value: &sdcpb.TypedValue_EmptyVal{EmptyVal: &emptypb.Empty{}}}
	case "decimal64":
		if d, ok := parseDec(lex); ok {
			return &sdcpb.TypedValue{Value: &sdcpb.TypedValue_DecimalVal{DecimalVal: d}}
		}
	case "identityref":
		name := lex
		prefix := ""
		if i := strings.LastIndex(lex, ":"); i >= 0 {
			name, prefix = lex[i+1:], lex[:i]
		}
		return &sdcpb.TypedValue{Value: &sdcpb.TypedValue_IdentityrefVal{IdentityrefVal: &sdcpb.IdentityRef{Value: name, Prefix: prefix}}}
	}
	return &sdcpb.TypedValue{Value: &sdcpb.TypedValue_StringVal{StringVal: lex}}
}

func parseDec(lex string) (*sdcpb.Decimal64, bool) {
	s := lex
	neg := false
	if strings.HasPrefix(s, "-") {
		neg = true
		s = s[1:]
	}
	ip, fp := s, ""
	if i := strings.Index(s, "."); i >= 0 {
		ip, fp = s[:i], s[i+1:]
	}
	d, err := strconv.ParseInt(ip+fp, 10, 64)
	if err != nil {
		return nil, false
	}
	if neg {
		d = -d
	}
	return &sdcpb.Decimal64{Digits: d, Precision: uint32(len(fp))}, true
}

// MkTV builds the typed value a client would send for the leaf.
func MkTV(n *world.Node, lex string, form string) *sdcpb.TypedValue {
	if form == "jsonleaf" || form == "jsonleaf_ietf" {
		// a JSON / JSON_IETF scalar (or array, for a leaf-list) given directly on the leaf's own path
		ietf := form == "jsonleaf_ietf"
		var v any
		switch n.Kind {
		case world.KContainer:
			v = map[string]any{}
		case world.KLeafList:
			arr := []any{}
			if lex != "" {
				for _, e := range strings.Split(lex, ",") {
					arr = append(arr, jsonScalar(n, e, ietf))
				}
			}
			v = arr
		default:
			v = jsonScalar(n, lex, ietf)
		}
		b, _ := json.Marshal(v)
		if ietf {
			return &sdcpb.TypedValue{Value: &sdcpb.TypedValue_JsonIetfVal{JsonIetfVal: b}}
		}
		return &sdcpb.TypedValue{Value: &sdcpb.TypedValue_JsonVal{JsonVal: b}}
	}
	switch n.Kind {
	case world.KContainer:
		return &sdcpb.TypedValue{Value: &sdcpb.TypedValue_EmptyVal{EmptyVal: &emptypb.Empty{}}}
	case world.KLeafList:
		arr := &sdcpb.ScalarArray{}
		// leaf-list elements given as strings are a C12 subject (form "string!"); history checks keep elements typed
		ef := "typed"
		if form == "string!" {
			ef = "string"
		}
		if lex != "" {
			for _, e := range strings.Split(lex, ",") {
				arr.Element = append(arr.Element, scalarTV(n.Type, e, ef))
			}
		}
		return &sdcpb.TypedValue{Value: &sdcpb.TypedValue_LeaflistVal{LeaflistVal: arr}}
	default:
		return scalarTV(n.Type, lex, form)
	}
}

// Universe builds the slot universe of a profile.
func Universe(si *world.SchemaInfo, profile string) []Slot {
	var out []Slot
	add := func(p world.Path, lex ...string) {
		n := si.Node(p)
		if n == nil {
			panic(fmt.Sprintf("universe: no schema node for %s", p))
		}
		out = append(out, Slot{Path: p, Node: n, Lex: lex})
	}
	E, P := world.E, world.P
	core := func(keys []string) {
		add(P(E("sys"), E("hostname")), "h1", "h2", "h3")
		add(P(E("sys"), E("descr")), "d1", "d2", "d3")
		add(P(E("sys"), E("tags")), "t1", "t1,t2", "t2,t3", "t3")
		add(P(E("sys"), E("nums")), "1", "1,2", "50")
		add(P(E("sys"), E("opts"), E("level")), "1", "2", "3")
		add(P(E("sys"), E("ext"), E("note")), "n1", "n2")
		add(P(E("sys"), E("extleaf")), "x1", "x2")
		add(P(E("deep"), E("l2"), E("l3"), E("a")), "a1", "a2")
		add(P(E("deep"), E("l2"), E("l3"), E("b")), "1", "2")
		add(P(E("deep"), E("l2"), E("l3"), E("c")), "c1", "c1,c2")
		add(P(E("deep"), E("l2"), E("l3"), E("d")), "7", "7,8")
		add(P(E("deep"), E("l2"), E("l3"), E("l4"), E("l5"), E("x")), "x1", "x2")
		add(P(E("deep"), E("l2"), E("l3"), E("l4"), E("l5"), E("y")), "y1", "y2")
		for _, k := range keys {
			add(P(E("k1", "name", k), E("val")), "v1", "v2", "v3")
			add(P(E("k1", "name", k), E("num")), "1", "2", "3")
			add(P(E("k1", "name", k), E("ll")), "l1", "l1,l2")
			add(P(E("k1", "name", k), E("xval")), "x1", "x2")
		}
		for _, k := range keys[:2] {
			for _, id := range []string{"1", "2"} {
				add(P(E("k1", "name", k), E("sub", "id", id), E("v")), "s1", "s2")
			}
			add(P(E("k1x", "name", k), E("val")), "v1", "v2")
		}
		for _, a := range []string{"a", "b"} {
			for _, b := range []string{"a", "b"} {
				add(P(E("k2o", "a", a, "b", b), E("val")), "w1", "w2")
			}
		}
	}
	switch profile {
	case "core":
		core([]string{"a", "b", "c"})
	case "presence":
		core([]string{"a", "b", "c"})
		add(P(E("sys"), E("opts")), "")
	case "adversarial":
		core([]string{"a", "ab", "a/b_c"})
		for _, a := range []string{"x", "y"} {
			for _, b := range []string{"x", "y"} {
				add(P(E("k2", "a", a, "b", b), E("val")), "w1", "w2")
			}
		}
		// key values in which a separator moves between adjacent keys, or between a key value and a child name:
		// k2o[a=a/b][b=c] vs k2o[a=a][b=b/c], k1[name=a/val] vs k1[name=a]/val (and the same with _ and ,-free variants)
		add(P(E("k2o", "a", "a/b", "b", "c"), E("val")), "w1", "w2")
		add(P(E("k2o", "a", "a", "b", "b/c"), E("val")), "w3", "w4")
		add(P(E("k2o", "a", "a_b", "b", "c"), E("val")), "w1", "w2")
		add(P(E("k2o", "a", "a", "b", "b_c"), E("val")), "w3", "w4")
		add(P(E("k1", "name", "a/val"), E("num")), "1", "2")
		add(P(E("k1", "name", "a_val"), E("num")), "1", "2")
		add(P(E("k3", "z", "q", "m", "1", "a", "r"), E("val")), "w1", "w2")
		add(P(E("k3", "z", "r", "m", "2", "a", "q"), E("val")), "w1", "w2")
		add(P(E("ch"), E("alphabet")), "z1", "z2")
		add(P(E("ch"), E("betamax")), "z1", "z2")
		// two lists of the same local name (k1/sub keyed id, tw/sub keyed "z a") in one tree
		add(P(E("tw"), E("sub", "z", "p", "a", "q"), E("v")), "s1", "s2")
		add(P(E("tw"), E("sub", "z", "q", "a", "p"), E("v")), "s1", "s2")
	case "choice":
		add(P(E("sys"), E("hostname")), "h1", "h2")
		add(P(E("ch"), E("alpha")), "a1", "a2")
		add(P(E("ch"), E("alpha2")), "b1", "b2")
		add(P(E("ch"), E("beta"), E("x")), "x1", "x2")
		add(P(E("ch"), E("beta"), E("y")), "y1", "y2")
		add(P(E("ch"), E("gl", "id", "g1"), E("v")), "g1", "g2")
		add(P(E("ch"), E("gl", "id", "g2"), E("v")), "g1", "g2")
		add(P(E("ch"), E("alphabet")), "z1", "z2")
		add(P(E("ch"), E("betamax")), "z1", "z2")
		// a presence container as case member: it can hold its own (bare) value and children at once
		add(P(E("ch"), E("delta")), "")
		add(P(E("ch"), E("delta"), E("p")), "p1", "p2")
		add(P(E("ch"), E("delta"), E("q")), "q1", "q2")
		for _, k := range []string{"a", "b"} {
			add(P(E("chl", "name", k), E("one")), "o1", "o2")
			add(P(E("chl", "name", k), E("two")), "t1", "t2")
			add(P(E("chl", "name", k), E("i1")), "i1", "i1b")
			add(P(E("chl", "name", k), E("i2")), "i2", "i2b")
			add(P(E("chl", "name", k), E("other")), "q1", "q2")
		}
	case "constraints":
		// by convention the LAST lexical value of the constrained slots is the invalid one
		add(P(E("sys"), E("hostname")), "h1", "h2")
		inv := func(n int) { out[len(out)-1].NInvalid = n }
		add(P(E("sys"), E("mtu")), "100", "9000", "10")
		inv(1)
		add(P(E("sys"), E("descr")), "d1", "d2", "waytoolongvalue")
		inv(1)
		add(P(E("sys"), E("code")), "abc1", "yy", "zz", "ABC")
		inv(2) // "zz" fits the first pattern and misses the second, "ABC" misses the first
		add(P(E("sys"), E("nums")), "1,2", "50", "1,99")
		inv(1)
		for _, k := range []string{"a", "b"} {
			add(P(E("k1", "name", k), E("val")), "v1", "v2")
			add(P(E("cons"), E("ml", "name", k), E("req")), "r1", "r2")
			add(P(E("cons"), E("ml", "name", k), E("opt")), "o1", "o2")
			add(P(E("cons"), E("ml", "name", k), E("msel")), "a", "b")
			add(P(E("cons"), E("ml", "name", k), E("mref")), "v1", "v2")
		}
		add(P(E("cons"), E("ref")), "a", "b", "c")
		add(P(E("cons"), E("refopt")), "a", "zz")
		add(P(E("cons"), E("lo")), "1", "5")
		add(P(E("cons"), E("hi")), "9", "5", "3")
		add(P(E("cons"), E("needshost")), "no", "yes")
		add(P(E("cons"), E("lim")), "x,y", "x,y,z", "x", "w,x,y,z")
		inv(2)
		add(P(E("cons"), E("lmax")), "x", "x,y", "x,y,z")
		inv(1)
	case "lazy":
		// leafref targets the kv leaves point to (selected by /cc/kn, which only running holds)
		add(P(E("k1", "name", "a"), E("val")), "v1", "v2")
		add(P(E("k1", "name", "c"), E("val")), "v1", "v2")
		// the cc container: validators of a/v, b/v, e[*]/v all read /cc/lim and /cc/base, the leafrefs read /k1[*]/name,
		// the h leaves read /sys/hostname - none of which the intents of this profile define (they come from running / defaults)
		for _, c := range []string{"a", "b"} {
			add(P(E("cc"), E(c), E("v")), "20", "30", "70", "5")
			add(P(E("cc"), E(c), E("r")), "a", "c", "zz")
			add(P(E("cc"), E(c), E("h")), "x", "y")
			add(P(E("cc"), E(c), E("lr")), "50", "51")
			add(P(E("cc"), E(c), E("lb")), "10", "11")
			add(P(E("cc"), E(c), E("kv")), "v1", "v2")
		}
		for _, k := range []string{"e1", "e2", "e3"} {
			add(P(E("cc"), E("e", "name", k), E("v")), "20", "40", "70")
			add(P(E("cc"), E("e", "name", k), E("r")), "a", "c", "zz")
			add(P(E("cc"), E("e", "name", k), E("peer")), "e1", "e2", "e9")
			add(P(E("cc"), E("e", "name", k), E("lr")), "50", "51")
			add(P(E("cc"), E("e", "name", k), E("kv")), "v1", "v2")
		}
	default:
		panic("unknown profile " + profile)
	}
	return out
}

// Closure adds the key leaves of every list entry on the leaf's path.
func Closure(si *world.SchemaInfo, leaves []*MLeaf) map[string]*MLeaf {
	out := map[string]*MLeaf{}
	for _, l := range leaves {
		out[l.Key()] = l
		for _, ep := range l.Path.ListEntryPrefixes() {
			last := ep[len(ep)-1]
			for k, v := range last.Keys {
				kp := ep.Child(k)
				if _, ok := out[kp.String()]; !ok {
					out[kp.String()] = NewMLeaf(si, kp, v)
				}
			}
		}
	}
	return out
}
