#!/bin/bash
# usage: seedtest.sh <patch.diff> <budget_s> <check> [<check>...]   (applies the patch to /repo, runs checks, reverts)
set -u
patch=$1; budget=$2; shift 2
cd /repo || exit 2
if [ -n "$(git status --porcelain)" ]; then echo "/repo not clean"; exit 2; fi
if ! git apply --3way "$patch" 2>/tmp/apply.err; then echo "PATCH DOES NOT APPLY"; cat /tmp/apply.err; git reset -q --hard HEAD; exit 2; fi
git reset -q
export GOFLAGS=-mod=mod GOPROXY=off GOSUMDB=off GOTOOLCHAIN=local
go build ./... || { echo "BUILD FAILS"; git reset -q --hard HEAD; exit 2; }
cd /verif
for c in "$@"; do
  VERIF_BUDGET_S=$budget ./run.sh $c ${TIER:-quick} 2>&1 | grep -E "VIOLATION|SUMMARY|HARNESS" | cut -c1-260
done
git -C /repo reset -q --hard HEAD
git -C /repo status --porcelain
