package checks

import (
	"fmt"
	"strings"
	"time"

	"github.com/sdcio/data-server/pkg/config"

	"verif/sim"
	"verif/world"
)

// HistOpts selects what a history run generates and which oracles run after each step.
type HistOpts struct {
	Profiles []string
	MinTx    int
	MaxTx    int
	Oracles  map[string]bool // C01 C02 C09 ...
	Allowed  map[string]bool // edit kinds allowed (nil = all)
	Capture  bool
	// DevKinds: device front ends to draw from (nil = direct only); see world.Opts.DevKind
	DevKinds []string
	// Sync: sync configuration of the datastore (nil = none)
	Sync       *config.Sync
	AfterStep  func(h *Hist, step int, tx *TxSpec, res *TxResult)
	BeforeStep func(h *Hist, step int) *TxSpec // may return a custom tx (nil = generate)
}

// Hist is the state of one history run.
type Hist struct {
	RC  *sim.RunCtx
	W   *world.World
	M   *Model
	G   *Gen
	Cfg *GenCfg
	Ops HistOpts
	Pre *Model // the model before the step currently being judged
}

func tierLen(rc *sim.RunCtx, o HistOpts) int {
	max := o.MaxTx
	if rc.Tier == "thorough" {
		max = o.MaxTx * 2
	}
	if max < o.MinTx {
		max = o.MinTx
	}
	return o.MinTx + rc.T.Choose(max-o.MinTx+1)
}

// NewHist builds world, generator and model with swarm configuration drawn from the tape.
func NewHist(rc *sim.RunCtx, o HistOpts) (*Hist, error) {
	t := rc.T
	profile := o.Profiles[t.Choose(len(o.Profiles))]
	cfg := SwarmCfg(t, profile, o.Allowed)
	wo := world.Opts{DisableConcurrency: t.Bool(1, 2), CaptureEncodings: o.Capture, Sync: o.Sync}
	if len(o.DevKinds) > 0 {
		wo.DevKind = o.DevKinds[t.Choose(len(o.DevKinds))]
		if wo.DevKind == "direct" {
			wo.DevKind = ""
		} else {
			wo.CaptureEncodings = false
		}
	}
	if wo.DisableConcurrency {
		rc.Buggify("validation-sequential")
	}
	w, err := world.New(rc, wo)
	if err != nil {
		return nil, err
	}
	h := &Hist{RC: rc, W: w, M: NewModel(w.SI), Cfg: cfg, Ops: o}
	h.G = NewGen(t, w.SI, cfg)
	rc.Scenario("profile=%s weights=%v forms=%v seqvalidation=%t device=%s", profile, cfg.W, cfg.FormW, wo.DisableConcurrency, devName(wo.DevKind))
	rc.Probe("dev-" + devName(wo.DevKind))
	r0 := h.G.GenR0()
	if err := w.SeedRunning(r0); err != nil {
		w.Close()
		return nil, err
	}
	for _, l := range r0 {
		h.M.R0[l.Path.String()] = l
		rc.Scenario("R0 %s = %s", l.Path, l.Abs)
	}
	return h, nil
}

// AdvanceClock moves simulated time between operations (0 = timestamp tie, a buggify case).
func (h *Hist) AdvanceClock() {
	d := []time.Duration{time.Millisecond, 0, time.Second, 37 * time.Second}[h.RC.T.Choose(4)]
	if d == 0 {
		h.RC.Probe("clock-tie")
	}
	time.Sleep(d)
	h.RC.AddSim(d.Seconds())
}

// Step generates and executes one transaction, confirms it when accepted, updates the model, runs oracles.
func (h *Hist) Step(step int) (tx *TxSpec, res *TxResult) {
	rc := h.RC
	if h.Ops.BeforeStep != nil {
		tx = h.Ops.BeforeStep(h, step)
	}
	if tx == nil {
		tx = h.G.GenTx(h.M)
	}
	if tx == nil {
		return nil, nil
	}
	rc.Step()
	rc.Scenario("%d: %s", step, tx.Render())
	pre := h.M.Clone()
	h.Pre = pre
	res = ExecTx(rc, h.W, tx, 5*time.Second)
	h.W.NoteTimer(30 * time.Second)
	if res.Err != nil {
		rc.Scenario("   -> error: %v", normErr(res.Err))
	} else if res.HasIntentErrors() {
		rc.Scenario("   -> intent errors: %v", res.IntentErrors)
	}
	if res.Accepted() && !tx.DryRun {
		h.M.PrevWinners = pre.choiceWinners()
		h.M.Accept(tx)
		if err := Confirm(rc, h.W, tx.ID); err != nil {
			rc.Report(sim.Item{Prop: "C06", Clause: "C06.confirm-open-failed", Step: step, Detail: fmt.Sprintf("confirm of just accepted %s failed: %v", tx.ID, normErr(err))})
		}
		h.sig(step, tx, pre, "ok")
		if h.Ops.Oracles["C01"] {
			OracleC01(rc, h.W, h.M, step, tx)
			if k := h.W.Opts.DevKind; k == "" || k == "gnmi-proto" {
				// (the JSON encodings do not re-state what is unchanged; their effect is judged by the model and by C10's wire leg)
				OracleResponseMatchesDevice(rc, h.W, res, step)
			}
		}
		if h.Ops.Oracles["C02"] {
			OracleC02(rc, h.W, h.M, step, tx)
		}
	} else {
		h.sig(step, tx, pre, "rejected")
	}
	if h.W.Shadow != nil {
		OracleWire(rc, h.W, res, step, tx)
	}
	if h.Ops.AfterStep != nil {
		h.Ops.AfterStep(h, step, tx, res)
	}
	return tx, res
}

func devName(k string) string {
	if k == "" {
		return "direct"
	}
	return k
}

// OracleWire (C10, wire leg): what the real target put on the wire must be decodable by the device and must have the same
// effect on the device as the proto view of the same tree (shadow direct device).
func OracleWire(rc *sim.RunCtx, w *world.World, res *TxResult, step int, tx *TxSpec) {
	f := map[string]string{"device": w.Opts.DevKind, "edits": renderEdits(tx)}
	for _, rec := range w.Dev.Sets[res.SetsBefore:res.SetsAfter] {
		if rec.WireErr != "" {
			ff := copyFields(f)
			ff["accepted"] = fmt.Sprint(res.Accepted())
			ff["presence_as_scalar"] = fmt.Sprint(strings.Contains(rec.WireErr, "presence container given as scalar"))
			rc.Report(sim.Item{Prop: "C10", Clause: "C10.wire-undecodable", Step: step, Fields: ff, Detail: fmt.Sprintf("the %s request built for this transaction cannot be decoded by the device: %s", w.Opts.DevKind, rec.WireErr)})
			// the shadow applied what the wire device refused: bring it back in line so that later steps are judged on their own
			w.Shadow.State = w.Dev.State.Clone()
			return
		}
	}
	if res.SetsAfter == res.SetsBefore {
		return
	}
	a := w.Shadow.State.WithImpliedPresence(w.SI)
	b := w.Dev.State.WithImpliedPresence(w.SI)
	// a presence container that exists on the device persists when the wire form does not re-state it (YANG reading, see C10)
	for k, l := range a {
		if n := w.SI.Node(l.Path); n != nil && n.Kind == world.KContainer && n.Presence {
			if _, ok := b[k]; !ok {
				b[k] = l
			}
		}
	}
	for k, l := range b {
		if n := w.SI.Node(l.Path); n != nil && n.Kind == world.KContainer && n.Presence {
			if _, ok := a[k]; !ok {
				a[k] = l
			}
		}
	}
	if d := diffStates(a, b); len(d) > 0 {
		ff := copyFields(f)
		ff["diff_kind"] = diffKind(a, b)
		rc.Report(sim.Item{Prop: "C10", Clause: "C10.wire-effect-differs", Step: step, Fields: ff, Detail: fmt.Sprintf("device state after the %s request differs from the state the proto view of the same tree produces (proto vs wire): %s", w.Opts.DevKind, strings.Join(d, "; "))})
		w.Shadow.State = w.Dev.State.Clone()
	}
}

// sig contributes the per-step behaviour signature (A.4) and non-triviality probes.
func (h *Hist) sig(step int, tx *TxSpec, pre *Model, outcome string) {
	rc := h.RC
	multi := 0
	rulerChanged := false
	paths := map[string]bool{}
	for _, it := range h.M.Live {
		for p := range it.Leaves {
			paths[p] = true
		}
	}
	for _, it := range pre.Live {
		for p := range it.Leaves {
			paths[p] = true
		}
	}
	for p := range paths {
		if len(h.M.Definers(p)) >= 2 {
			multi++
		}
		a, b := pre.Ruler(p), h.M.Ruler(p)
		if a != nil && b != nil && a.Name != b.Name {
			rulerChanged = true
			rc.Probe("ruler-changed")
		}
		if a != nil && b != nil && a.Name == b.Name && len(pre.Definers(p)) >= 3 {
			rc.Probe("three-definers")
		}
		if a != nil && b == nil {
			rc.Probe("path-died")
		}
		if a != nil && b != nil && a.Name != b.Name && len(pre.Definers(p)) >= 3 && pre.Live[a.Name] != nil && h.M.Live[a.Name] == nil {
			rc.Probe("ruler-deleted-two-alternatives")
		}
	}
	for _, is := range tx.Intents {
		rc.Probe("edit-" + is.Edit)
		if old := pre.Live[is.Name]; old != nil {
			for p := range old.Leaves {
				if r := pre.Ruler(p); r != nil && r.Name != is.Name {
					rc.Probe("shadowed-owner-edited")
					break
				}
			}
		}
	}
	if len(tx.Intents) > 1 {
		rc.Probe("multi-intent-tx")
	}
	mb := multi
	if mb > 3 {
		mb = 3
	}
	rc.SigAdd(fmt.Sprintf("%s|o%d|m%d|r%t|%s", renderEdits(tx), len(h.M.Live), mb, rulerChanged, outcome))
	if len(h.M.Live) >= 2 && multi >= 1 && rulerChanged {
		rc.NonTrivial()
	}
}

func normErr(err error) string {
	if err == nil {
		return ""
	}
	s := err.Error()
	if len(s) > 200 {
		s = s[:200]
	}
	return s
}

func runC01(rc *sim.RunCtx) {
	h, err := NewHist(rc, HistOpts{Profiles: []string{"core", "core", "presence"}, MinTx: 2, MaxTx: 10,
		DevKinds: []string{"direct", "direct", "direct", "gnmi-proto", "gnmi-json", "gnmi-json_ietf", "netconf", "netconf-running"},
		Oracles:  map[string]bool{"C01": true, "C02": true}})
	if err != nil {
		rc.HarnessErr("world: %v", err)
		return
	}
	defer h.W.Close()
	n := tierLen(rc, h.Ops)
	for s := 0; s < n; s++ {
		h.AdvanceClock()
		h.Step(s)
	}
}

func init() {
	Register(&sim.Check{
		ID: "C01", Level: "exploration", Run: runC01,
		Rule: "seeded histories of TransactionSet (create/change/grow/shrink/reprio/delete/orphan/resubmit, 1-3 intents per transaction, overlapping owners, lists with 1-2 keys, leaf-lists, presence) from a generated running config; the device is the direct one (proto view of the tree) or, in half of the runs, the real gnmiTarget (proto / json / json_ietf) in front of an in-process gNMI client; device state compared with the merge model after every accepted transaction. A run is non-trivial when >=2 owners overlap on a path and some transaction changes which owner rules a path; distinct = distinct behaviour signature (sequence of edit kinds, #owners, #contended paths, ruler change, outcome).",
		Real: realCore, Stub: stubCore,
		RequiredProbes: []string{"ruler-changed", "path-died", "shadowed-owner-edited", "multi-intent-tx"},
		QuickSeconds:   35, ThoroughSeconds: 600,
	})
}

var realCore = []string{"pkg/server TransactionSet/Confirm/Cancel handlers", "pkg/datastore (transaction pipeline)", "pkg/datastore/types", "pkg/tree", "pkg/utils", "pkg/cache/local.go", "sdcio/cache + badger (on tmpfs)", "sdcio/schema-server memstore + goyang (vsim YANG)", "pkg/datastore/clients/schema", "pkg/datastore/target gnmiTarget.Set and ncTarget.Set (device kinds gnmi-*, netconf*)"}
var stubCore = []string{"southbound device (direct target.Target interpreting the proto view; in-process gNMI client / NETCONF driver that decode the wire requests of the real targets)", "scrapligo NETCONF driver and gRPC dial of the targets", "gRPC transport (handlers called in-process with a peer context)", "wall clock (testing/synctest fake clock)"}
