package checks

import (
	"context"
	"crypto/sha1"
	"encoding/hex"
	"fmt"
	"sort"
	"strings"
	"testing/synctest"
	"time"

	sdcpb "github.com/sdcio/sdc-protos/sdcpb"

	"github.com/sdcio/data-server/pkg/cache"
	"github.com/sdcio/data-server/pkg/config"
	"github.com/sdcio/data-server/pkg/datastore"
	"github.com/sdcio/data-server/pkg/datastore/target"

	"verif/sim"
	"verif/world"
)

// schedCache parks every Modify of the sync workers under the seeded scheduler (completion order is a choice).
type schedCache struct {
	cache.Client
	yield    func(string)
	inflight *int
	logf     func(string, ...any)
}

func modDigest(dels [][]string, upds []*cache.Update) string {
	h := sha1.New()
	for _, d := range dels {
		h.Write([]byte("D" + strings.Join(d, ",") + ";"))
	}
	for _, u := range upds {
		h.Write([]byte("U" + strings.Join(u.GetPath(), ",") + "="))
		h.Write(u.Bytes())
	}
	return hex.EncodeToString(h.Sum(nil))[:8]
}

func (c *schedCache) Modify(ctx context.Context, name string, opts *cache.Opts, dels [][]string, upds []*cache.Update) error {
	what := "?"
	if len(dels) > 0 {
		what = "del " + strings.Join(dels[0], "/")
	} else if len(upds) > 0 {
		what = "upd " + strings.Join(upds[0].GetPath(), "/")
	}
	*c.inflight++
	c.yield("modify")
	c.logf("CACHE write lands: %s", what)
	err := c.Client.Modify(ctx, name, opts, dels, upds)
	*c.inflight--
	return err
}

type syncMsg struct {
	kind string // start end notif
	upds []*MLeaf
	dels []world.Path
	json bool
}

func (m syncMsg) render() string {
	switch m.kind {
	case "start", "end":
		return strings.ToUpper(m.kind)
	}
	var parts []string
	for _, d := range m.dels {
		parts = append(parts, "DEL "+d.String())
	}
	for _, u := range m.upds {
		parts = append(parts, "UPD "+u.Path.String()+"="+u.Lex)
	}
	j := ""
	if m.json {
		j = " (json blob)"
	}
	return "NOTIF" + j + " " + strings.Join(parts, "; ")
}

type mirrorEntry struct {
	abs   string
	epoch int
	state bool
	path  world.Path
}

// runC13Echo: a history builds a device configuration through the real transaction pipeline; then the device runs a full re-sync
// cycle (start, its WHOLE configuration in a device-native format through the real converters, end) into the real Datastore.Sync.
// After the prune the running store must hold exactly what the device holds: a leaf the conversion loses or misplaces is pruned
// or appears at a wrong path. Some drift is applied to the device first so that the cycle has something to repair.
func runC13Echo(rc *sim.RunCtx) {
	t := rc.T
	rc.Probe("mode-echo-cycle")
	h, err := NewHist(rc, HistOpts{Profiles: []string{"core", "presence"}, MinTx: 1, MaxTx: 5, Oracles: map[string]bool{},
		Sync: &config.Sync{Validate: true, Buffer: 256, WriteWorkers: 1, Config: []*config.SyncProtocol{{Name: "cfg", Protocol: "gnmi", Mode: "on-change"}}}})
	if err != nil {
		rc.HarnessErr("world: %v", err)
		return
	}
	w := h.W
	defer w.Close()
	var syncCh chan *target.SyncUpdate
	ready := make(chan struct{})
	w.Dev.SyncFn = func(ctx context.Context, cfg *config.Sync, c chan *target.SyncUpdate) {
		syncCh = c
		close(ready)
		<-ctx.Done()
	}
	sctx, scancel := context.WithCancel(w.Ctx)
	defer scancel()
	go w.DS.Sync(sctx)
	<-ready
	n := tierLen(rc, h.Ops)
	for s := 0; s < n; s++ {
		h.AdvanceClock()
		h.Step(s)
	}
	// drift on the device (not reported yet): change or remove some leaves
	keys := w.Dev.State.Keys()
	for i := 0; i < t.Choose(3) && len(keys) > 0; i++ {
		k := keys[t.Choose(len(keys))]
		l := w.Dev.State[k]
		if nd := w.SI.Node(l.Path); nd == nil || nd.Kind == world.KContainer || nd.IsKeyLeaf() {
			continue
		}
		if t.Bool(1, 2) {
			delete(w.Dev.State, k)
			rc.Scenario("drift: device lost %s", k)
		} else {
			for _, sl := range h.G.Uni {
				if sl.Path.String() == k {
					ml := NewMLeaf(w.SI, sl.Path, sl.Lex[t.Choose(len(sl.Lex))])
					w.Dev.State[k] = &world.Leaf{Path: ml.Path, Abs: ml.Abs}
					rc.Scenario("drift: device has %s = %s", k, ml.Lex)
				}
			}
		}
	}
	style := deviceEchoStyles[t.Choose(len(deviceEchoStyles))]
	ns, err := deviceEcho(t, w, w.Dev.State, style)
	if err != nil {
		rc.HarnessErr("echo: %v", err)
		return
	}
	rc.Scenario("re-sync cycle: %d leaves as %s in %d notifications", len(w.Dev.State), style, len(ns))
	rc.Probe("echo-" + style)
	syncCh <- &target.SyncUpdate{Start: true}
	for _, nf := range ns {
		syncCh <- &target.SyncUpdate{Update: nf}
	}
	syncCh <- &target.SyncUpdate{End: true}
	synctest.Wait()
	time.Sleep(2 * time.Second)
	synctest.Wait()
	rc.Step()
	rc.NonTrivial()
	rc.SigAdd(fmt.Sprintf("echo|%s|%d", style, len(ns)))
	dump, derr := w.DumpConfig()
	if derr != nil {
		rc.HarnessErr("dump: %v", derr)
		return
	}
	run := map[string]string{}
	runPath := map[string]world.Path{}
	for _, e := range dump {
		run[e.Path.String()] = world.NormAbs(e.Abs)
		runPath[e.Path.String()] = e.Path
	}
	f := map[string]string{"style": style, "workers": "1"}
	for _, k := range w.Dev.State.Keys() {
		l := w.Dev.State[k]
		if nd := w.SI.Node(l.Path); nd != nil && nd.Kind == world.KContainer {
			continue // whether a bare presence container is reported as an entry of its own is the device's business
		}
		if got, ok := run[k]; !ok {
			rc.Report(sim.Item{Prop: "C13", Clause: "C13.echo-missing", Fields: f, Detail: fmt.Sprintf("after the re-sync cycle (%s) the running store lacks %s = %s which the device holds and reported", style, k, world.NormAbs(l.Abs))})
		} else if got != world.NormAbs(l.Abs) {
			rc.Report(sim.Item{Prop: "C13", Clause: "C13.echo-wrong-value", Fields: f, Detail: fmt.Sprintf("after the re-sync cycle (%s) the running store holds %s = %s, the device holds %s", style, k, got, world.NormAbs(l.Abs))})
		}
	}
	for k, v := range run {
		if _, ok := w.Dev.State[k]; !ok {
			if nd := w.SI.Node(runPath[k]); nd != nil && nd.Kind == world.KContainer {
				continue
			}
			rc.Report(sim.Item{Prop: "C13", Clause: "C13.echo-stale", Fields: f, Detail: fmt.Sprintf("after the re-sync cycle (%s) the running store still holds %s = %s which the device does not hold", style, k, v)})
		}
	}
}

func runC13(rc *sim.RunCtx) {
	if rc.T.Choose(4) == 3 {
		runC13Echo(rc)
		return
	}
	t := rc.T
	workers := []int64{1, 2, 16}[t.Choose(3)]
	buffer := []int64{1, 8, 10000}[t.Choose(3)]
	validate := t.Bool(1, 2)
	inflight := 0
	sched := sim.NewSched(rc, 10*time.Millisecond, time.Second)
	datastore.VerifYield = sched.Yield
	defer func() { datastore.VerifYield = nil }()
	w, err := world.New(rc, world.Opts{
		Sync: &config.Sync{Validate: validate, Buffer: buffer, WriteWorkers: workers, Config: []*config.SyncProtocol{{Name: "cfg", Protocol: "gnmi", Mode: "on-change"}}},
		WrapCache: func(c cache.Client) cache.Client {
			return &schedCache{Client: c, yield: sched.Yield, inflight: &inflight, logf: rc.Logf}
		},
	})
	if err != nil {
		rc.HarnessErr("world: %v", err)
		return
	}
	defer w.Close()
	rc.Scenario("workers=%d buffer=%d validate=%t", workers, buffer, validate)
	si := w.SI
	// universe: config leaves with prefix related keys, plus state leaves
	E, P := world.E, world.P
	type slot struct {
		p   world.Path
		lex []string
	}
	var uni []slot
	for _, k := range []string{"a", "ab", "b"} {
		uni = append(uni, slot{P(E("k1", "name", k), E("val")), []string{"v1", "v2", "v3"}}, slot{P(E("k1", "name", k), E("num")), []string{"1", "2"}})
		uni = append(uni, slot{P(E("k1x", "name", k), E("val")), []string{"v1", "v2"}})
	}
	uni = append(uni, slot{P(E("sys"), E("hostname")), []string{"h1", "h2", "h3"}}, slot{P(E("sys"), E("ext"), E("note")), []string{"n1", "n2"}}, slot{P(E("sys"), E("extleaf")), []string{"x1", "x2"}},
		slot{P(E("sys"), E("tags")), []string{"t1", "t1,t2"}}, slot{P(E("st"), E("counter")), []string{"1", "2", "3"}}, slot{P(E("st"), E("oper")), []string{"up", "down"}}, slot{P(E("sys"), E("uptime")), []string{"10", "20"}})
	delTargets := []world.Path{P(E("k1", "name", "a")), P(E("k1", "name", "ab")), P(E("k1", "name", "b")), P(E("k1x", "name", "a")), P(E("sys"), E("ext")), P(E("sys"), E("hostname")), P(E("k1", "name", "a"), E("val")), P(E("sys"), E("extleaf")),
		// state paths: one notification may delete config and state paths together (each goes to its own store)
		P(E("st"), E("counter")), P(E("st"), E("oper")), P(E("sys"), E("uptime")),
		// a whole list (no keys) and a whole container: they cover what notifications that are still in flight wrote below them
		P(E("k1")), P(E("k1x")), P(E("sys"))}
	// ---- generate the script ----
	var script []syncMsg
	nmsg := 4 + t.Choose(10)
	if rc.Tier == "thorough" {
		nmsg = 4 + t.Choose(24)
	}
	inCycle := false
	hot := []slot{}
	for i := 0; i < nmsg; i++ {
		k := t.Weighted([]int{8, 2, 2})
		switch {
		case k == 1 && !inCycle:
			script = append(script, syncMsg{kind: "start"})
			inCycle = true
		case k == 2 && inCycle:
			script = append(script, syncMsg{kind: "end"})
			inCycle = false
		default:
			m := syncMsg{kind: "notif"}
			if t.Bool(1, 4) {
				nd := 1 + t.Weighted([]int{4, 2, 1})
				seenD := map[string]bool{}
				for j := 0; j < nd; j++ {
					d := delTargets[t.Choose(len(delTargets))]
					if !seenD[d.String()] {
						seenD[d.String()] = true
						m.dels = append(m.dels, d)
						if len(d) == 1 {
							rc.Probe("whole-list-or-container-delete")
						}
					}
				}
				if len(m.dels) > 1 {
					rc.Probe("multi-delete-notification")
				}
			}
			nu := t.Choose(3)
			if len(m.dels) == 0 && nu == 0 {
				nu = 1
			}
			seen := map[string]bool{}
			for j := 0; j < nu; j++ {
				var s slot
				if len(hot) > 0 && t.Bool(1, 2) {
					s = hot[t.Choose(len(hot))] // same path again: latest must win
				} else {
					s = uni[t.Choose(len(uni))]
					hot = append(hot, s)
				}
				if seen[s.p.String()] {
					continue
				}
				seen[s.p.String()] = true
				m.upds = append(m.upds, NewMLeaf(si, s.p, s.lex[t.Choose(len(s.lex))]))
			}
			if len(m.upds) > 0 && t.Bool(1, 5) {
				// a JSON blob, possibly in the same notification as a delete (replace of an entry)
				m.json = true
				if len(m.dels) > 0 {
					rc.Probe("json-blob-with-delete")
				}
			}
			script = append(script, m)
		}
	}
	if inCycle {
		script = append(script, syncMsg{kind: "end"})
	}
	for i, m := range script {
		rc.Scenario("%d: %s", i, m.render())
	}
	// ---- the reference: running-mirror model, sequential in script order ----
	mirror := map[string]*mirrorEntry{}
	epoch := 0
	lastWrite := map[string]int{}
	sameInFlightPossible := false
	for i, m := range script {
		switch m.kind {
		case "start":
			epoch++
		case "end":
			for k, e := range mirror {
				if e.epoch != epoch {
					delete(mirror, k)
				}
			}
		case "notif":
			for _, d := range m.dels {
				for k, e := range mirror {
					if e.path.HasPrefix(d) {
						delete(mirror, k)
					}
				}
			}
			for _, l := range Closure(si, m.upds) {
				if j, ok := lastWrite[l.Key()]; ok && i-j < int(workers) && workers > 1 {
					sameInFlightPossible = true
				}
				lastWrite[l.Key()] = i
				mirror[l.Key()] = &mirrorEntry{abs: l.Abs, epoch: epoch, state: l.Node.IsState, path: l.Path}
			}
		}
	}
	if sameInFlightPossible {
		rc.Probe("same-path-writes-close")
		rc.NonTrivial()
	}
	for _, m := range script {
		if len(m.dels) > 0 {
			rc.Probe("delete-notification")
			rc.NonTrivial()
		}
		if m.kind == "end" {
			rc.Probe("resync-cycle")
		}
	}
	// ---- run: device task pushes the script, Datastore.Sync consumes it ----
	var ch chan *target.SyncUpdate
	ready := make(chan struct{})
	w.Dev.SyncFn = func(ctx context.Context, cfg *config.Sync, c chan *target.SyncUpdate) {
		ch = c
		close(ready)
		<-ctx.Done()
	}
	sctx, scancel := context.WithCancel(w.Ctx)
	defer scancel()
	go w.DS.Sync(sctx)
	<-ready
	pushed := 0
	sched.Go("device", func() {
		for _, m := range script {
			sched.Yield("push")
			var su *target.SyncUpdate
			switch m.kind {
			case "start":
				su = &target.SyncUpdate{Start: true}
			case "end":
				su = &target.SyncUpdate{End: true}
			default:
				n := &sdcpb.Notification{}
				for _, d := range m.dels {
					n.Delete = append(n.Delete, d.ToSdcpb())
				}
				if m.json {
					b, err := buildJSON(si, m.upds, false)
					if err != nil {
						rc.HarnessErr("json: %v", err)
						return
					}
					n.Update = []*sdcpb.Update{{Path: &sdcpb.Path{}, Value: &sdcpb.TypedValue{Value: &sdcpb.TypedValue_JsonVal{JsonVal: b}}}}
				} else {
					for _, u := range m.upds {
						n.Update = append(n.Update, &sdcpb.Update{Path: u.Path.ToSdcpb(), Value: MkTV(u.Node, u.Lex, "typed")})
					}
				}
				su = &target.SyncUpdate{Update: n}
			}
			rc.Logf("DEVICE push %s", m.render())
			ch <- su
			pushed++
		}
	})
	sched.Enable()
	ok := sched.Run(6000)
	// quiescence: channel drained and no write in flight
	for i := 0; i < 200 && (len(ch) > 0 || inflight > 0); i++ {
		sched.Run(200)
	}
	sched.Drain()
	time.Sleep(2 * time.Second)
	if !ok || len(ch) > 0 || inflight > 0 {
		rc.Report(sim.Item{Prop: "C13", Clause: "C13.no-quiescence", Detail: fmt.Sprintf("sync did not drain: channel=%d in-flight writes=%d pushed=%d/%d", len(ch), inflight, pushed, len(script))})
		return
	}
	rc.SigAdd(fmt.Sprintf("w%d|b%d|v%t|%s", workers, buffer, validate, strings.Join(sched.Trace, ">")))
	// ---- compare ----
	cfgDump, err1 := w.DumpConfig()
	stDump, err2 := w.DumpState()
	if err1 != nil || err2 != nil {
		rc.HarnessErr("dump: %v %v", err1, err2)
		return
	}
	got := map[string]string{}
	for _, e := range cfgDump {
		got["CONFIG "+e.Path.String()] = world.NormAbs(e.Abs)
	}
	for _, e := range stDump {
		got["STATE "+e.Path.String()] = world.NormAbs(e.Abs)
	}
	want := map[string]string{}
	for k, e := range mirror {
		store := "CONFIG "
		if e.state && validate {
			store = "STATE "
		}
		want[store+k] = world.NormAbs(e.abs)
	}
	keys := map[string]bool{}
	for k := range got {
		keys[k] = true
	}
	for k := range want {
		keys[k] = true
	}
	ks := make([]string, 0, len(keys))
	for k := range keys {
		ks = append(ks, k)
	}
	sort.Strings(ks)
	f := map[string]string{"workers": fmt.Sprint(workers), "validate": fmt.Sprint(validate), "buffer": fmt.Sprint(buffer)}
	for _, k := range ks {
		g, gok := got[k]
		wv, wok := want[k]
		ff := copyFields(f)
		ff["entry"] = k
		switch {
		case gok && !wok:
			// in the other store?
			alt := strings.Replace(k, "CONFIG ", "STATE ", 1)
			if alt == k {
				alt = strings.Replace(k, "STATE ", "CONFIG ", 1)
			}
			if _, other := want[alt]; other {
				rc.Report(sim.Item{Prop: "C13", Clause: "C13.wrong-store", Fields: ff, Detail: k + " is stored but belongs to the other store"})
			} else {
				rc.Report(sim.Item{Prop: "C13", Clause: "C13.stale-entry", Fields: ff, Detail: fmt.Sprintf("running mirror holds %s=%s which the device no longer reports", k, g)})
			}
		case !gok && wok:
			rc.Report(sim.Item{Prop: "C13", Clause: "C13.missing-entry", Fields: ff, Detail: fmt.Sprintf("running mirror lacks %s=%s which the device last reported", k, wv)})
		case g != wv:
			rc.Report(sim.Item{Prop: "C13", Clause: "C13.not-latest", Fields: ff, Detail: fmt.Sprintf("running mirror has %s=%s, the latest notification said %s", k, g, wv)})
		}
	}
}

func init() {
	Register(&sim.Check{
		ID: "C13", Level: "exploration", Run: runC13,
		Rule: "a scripted device pushes 4-13 (thorough up to 27) sync messages - re-sync cycles (start/notifications/end), on-change updates and deletes (leaf, list entry, container; keys a/ab/b so that names extend one another), repeated writes to the same path, JSON blobs, state leaves - into the real Datastore.Sync with write workers 1/2/16, buffer 1/8/10000, sync validation on/off. Every cache Modify of a sync worker parks in the cache decorator; the seeded scheduler chooses the completion order (including writes of an older notification landing after a newer one and after the prune). After quiescence CONFIG and STATE are compared with a sequential running-mirror model. Notifications carry 1-3 deletes over config and state paths. Echo-cycle leg (a quarter of the runs): a history builds a device configuration, drift is applied on the device, then the device runs a full re-sync cycle (start, its whole configuration in a native gNMI or NETCONF format through the real converters, end); after the prune the running store must hold exactly what the device holds. Non-trivial = deletes or close-by writes to one path with >1 worker; distinct = configuration + released-task sequence.",
		Real: append(append([]string{}, realCore...), "pkg/datastore Sync / storeSyncMsg", "pkg/utils converter (notification conversion)"), Stub: append(append([]string{}, stubCore...), "device Sync stream (scripted notifications pushed into the sync channel)"),
		RequiredProbes: []string{"delete-notification", "resync-cycle", "same-path-writes-close", "json-blob-with-delete"}, MapOrderSensitive: true,
		QuickSeconds: 30, ThoroughSeconds: 480,
	})
}
