package checks

import (
	"context"
	"fmt"
	"runtime"
	"runtime/debug"
	"sort"
	"strings"
	"sync"
	"time"

	"github.com/anishathalye/porcupine"
	sdcpb "github.com/sdcio/sdc-protos/sdcpb"

	"github.com/sdcio/data-server/pkg/datastore"
	"github.com/sdcio/data-server/pkg/datastore/types"

	"verif/sim"
	"verif/world"
)

type recRollbacker struct {
	inner types.RollbackInterface
	rc    *sim.RunCtx
	calls []string // transaction ids
	spans [][2]int // seq stamps
	who   []string // scheduler task that performed the rollback
	sched *sim.Sched
	// widen (free-running leg): the rollback yields the processor this many times before and after the real one,
	// so that calls of other clients meet a rollback in progress
	widen int
	mu    sync.Mutex
}

func (r *recRollbacker) TransactionRollback(ctx context.Context, tr *types.Transaction, dryRun bool) (*sdcpb.TransactionSetResponse, error) {
	id := tr.GetTransactionId()
	a := r.rc.Seq()
	r.rc.Logf("ROLLBACK begin %s", id)
	for i := 0; i < r.widen; i++ {
		runtime.Gosched()
	}
	rsp, err := r.inner.TransactionRollback(ctx, tr, dryRun)
	for i := 0; i < r.widen; i++ {
		runtime.Gosched()
	}
	b := r.rc.Seq()
	r.mu.Lock()
	r.calls = append(r.calls, id)
	r.who = append(r.who, r.sched.CurrentName())
	r.spans = append(r.spans, [2]int{a, b})
	r.mu.Unlock()
	r.rc.Logf("ROLLBACK end %s err=%t", id, err != nil)
	return rsp, err
}

type c16op struct {
	Kind   string // confirm cancel set
	ID     string
	Call   int
	Ret    int
	OK     bool
	Locked bool
	Err    string
	// in-flight kinds at the moment the call returned locked
	Others []string
	Name   string
	// some in-flight TransactionSet was in the middle of a registration attempt (holds the datastore lock for an instant)
	SetMidAttempt bool
}

// porcupine model of the transaction slot (DESIGN A.6). State: open id ("" = none).
type c16in struct {
	Kind string
	ID   string
}
type c16out struct {
	OK     bool
	Locked bool
}

func c16Model() porcupine.Model {
	return porcupine.Model{
		Init: func() interface{} { return "T1" },
		Step: func(state, input, output interface{}) (bool, interface{}) {
			open := state.(string)
			in := input.(c16in)
			out := output.(c16out)
			switch in.Kind {
			case "confirm", "cancel":
				if out.OK {
					return open == in.ID, ""
				}
				// a refusal is always admissible for the model (the dedicated clause judges refusals of the open id)
				return true, open
			case "expire":
				// out.OK = a rollback was performed
				if out.OK {
					return open == in.ID, ""
				}
				return open != in.ID, open
			case "set":
				if out.OK {
					return open == "", in.ID
				}
				return true, open
			}
			return false, open
		},
		Equal: func(a, b interface{}) bool { return a.(string) == b.(string) },
		DescribeOperation: func(i, o interface{}) string {
			return fmt.Sprintf("%v -> %v", i, o)
		},
	}
}

func runC16(rc *sim.RunCtx) {
	t := rc.T
	w, err := world.New(rc, world.Opts{DisableConcurrency: true})
	if err != nil {
		rc.HarnessErr("world: %v", err)
		return
	}
	defer w.Close()
	sched := sim.NewSched(rc, 50*time.Millisecond, 200*time.Millisecond, time.Second)
	types.VerifYield = sched.Yield
	datastore.VerifYield = sched.Yield
	defer func() { types.VerifYield = nil; datastore.VerifYield = nil }()
	rec := &recRollbacker{rc: rc, sched: sched}
	w.DS.VerifTransactionManager().VerifWrapRollbacker(func(r types.RollbackInterface) types.RollbackInterface {
		rec.inner = r
		return rec
	})
	si := w.SI
	mk := func(id, owner, val string, to uint32) *TxSpec {
		return &TxSpec{ID: id, Timeout: to, Intents: []IntentSpec{{Name: owner, Prio: 10, Form: "typed", Edit: "create",
			Leaves: []*MLeaf{NewMLeaf(si, world.P(world.E("sys"), world.E("hostname")), val)}}}}
	}
	T := []uint32{1, 2, 5}[t.Choose(3)]
	res := ExecTx(rc, w, mk("T1", "o1", "h1", T), 5*time.Second)
	if !res.Accepted() {
		rc.HarnessErr("T1 not accepted: %v", res.Err)
		return
	}
	w.NoteTimer(time.Duration(T) * time.Second)
	t1Deadline := time.Now().Add(time.Duration(T) * time.Second)
	rc.Scenario("T1 applied with timeout %ds", T)

	kinds := []string{"confirm:T1", "cancel:T1", "confirm:zz", "cancel:zz", "set:T2"}
	kindW := []int{4, 4, 1, 1, 3}
	// reuse: the competing TransactionSet carries the same transaction id string as T1 (ids are chosen by the client and may be
	// reused once a transaction is resolved). It stays "T2" in the records; only Confirm(T1) and that Set race the timer then,
	// because a Cancel of the shared id could not be attributed.
	reuse := t.Bool(1, 4)
	t2Wire := "T2"
	if reuse {
		kindW = []int{3, 0, 0, 0, 3}
		t2Wire = "T1"
		rc.Probe("id-reused")
		rc.Scenario("the competing TransactionSet reuses the id of T1")
	}
	// free-running leg (a fifth of the runs): the tasks and the timer are not parked at the yield points but run as the Go
	// scheduler lets them, all started at offsets that tie with the deadline, and the rollback takes a while. This reaches
	// what cannot be parked: windows inside a call that holds the manager lock on correct code (another task would wait for a
	// sync.Mutex there, which testing/synctest does not treat as durably blocked). Runtime monitoring: events are not part of
	// the canonical log, the count-based clauses judge the outcome, the linearizability clause is left to the scheduled runs.
	free := t.Bool(1, 5)
	if free {
		rc.Probe("mode-free-running")
		rc.Scenario("free-running leg")
		rec.widen = 400
	}
	ntasks := 1 + t.Choose(3)
	if free {
		ntasks = 2 + t.Choose(2)
	}
	var ops []*c16op
	var opMu sync.Mutex
	inflight := map[*c16op]bool{}
	panics := []string{}
	t2Timeout := uint32(30)
	for i := 0; i < ntasks; i++ {
		k := kinds[t.Weighted(kindW)]
		// start offset relative to the deadline: well before, just before, at, just after
		off := []time.Duration{0, time.Duration(T)*time.Second - 250*time.Millisecond, time.Duration(T)*time.Second - 50*time.Millisecond,
			time.Duration(T) * time.Second, time.Duration(T)*time.Second + 50*time.Millisecond}[t.Choose(5)]
		if free {
			// everybody meets at the deadline (give or take nothing: ties on the fake clock run in parallel)
			off = time.Duration(T) * time.Second
		}
		name := fmt.Sprintf("c%d-%s", i, k)
		rc.Scenario("task %s starts at +%s", name, off)
		parts := strings.SplitN(k, ":", 2)
		op := &c16op{Kind: parts[0], ID: parts[1], Name: name}
		ops = append(ops, op)
		sched.Go(name, func() {
			defer func() {
				if r := recover(); r != nil {
					opMu.Lock()
					panics = append(panics, fmt.Sprintf("%s: %v\n%s", name, r, debug.Stack()))
					op.Ret = rc.Seq()
					delete(inflight, op)
					opMu.Unlock()
				}
			}()
			if off > 0 {
				time.Sleep(off)
			}
			sched.Yield("invoke")
			opMu.Lock()
			op.Call = rc.Seq()
			inflight[op] = true
			opMu.Unlock()
			rc.Logf("INVOKE %s", name)
			var err error
			switch op.Kind {
			case "confirm":
				_, err = w.Srv.TransactionConfirm(w.Ctx, &sdcpb.TransactionConfirmRequest{DatastoreName: world.DSName, TransactionId: op.ID})
			case "cancel":
				_, err = w.Srv.TransactionCancel(w.Ctx, &sdcpb.TransactionCancelRequest{DatastoreName: world.DSName, TransactionId: op.ID})
			case "set":
				r := ExecTx(rc, w, mk(t2Wire, "o2", "h2", t2Timeout), 3*time.Second)
				err = r.Err
				if err == nil && r.HasIntentErrors() {
					err = fmt.Errorf("intent errors")
				}
			}
			opMu.Lock()
			defer opMu.Unlock()
			op.Ret = rc.Seq()
			delete(inflight, op)
			op.OK = err == nil
			if err != nil {
				op.Err = normErr(err)
				op.Locked = strings.Contains(err.Error(), "Datastore is locked")
				if op.Locked {
					for o := range inflight {
						op.Others = append(op.Others, o.Kind)
						if o.Kind == "set" && (sched.ParkedAt(o.Name) == "tm.register" || sched.ParkedAt(o.Name) == "ds.trylock.set") {
							op.SetMidAttempt = true
						}
					}
					sort.Strings(op.Others)
				}
			}
			rc.Logf("RETURN %s ok=%t locked=%t", name, op.OK, op.Locked)
		})
	}
	w.NoteTimer(time.Duration(t2Timeout) * time.Second)
	// timer expiry as pseudo operation
	expCall, expSeen := 0, false
	sched.OnRelease = func(name, point string) {
		if point == "timer.fired" && !expSeen {
			expSeen = true
			expCall = rc.Seq()
		}
	}
	if free {
		rc.MuteLog()
	} else {
		sched.Enable()
	}
	finished := sched.Run(3000)
	sched.Drain()
	if !finished {
		rc.Report(sim.Item{Prop: "C16", Clause: "C16.no-progress", Detail: "schedule budget exhausted: tasks still alive or parked after 3000 scheduling decisions (livelock / deadlock)"})
	}
	// let T1's timer fire if it has not (nobody resolved it), then settle
	if d := time.Until(t1Deadline) + 500*time.Millisecond; d > 0 {
		time.Sleep(d)
		rc.AddSim(d.Seconds())
	}
	time.Sleep(time.Second)
	// T2, if accepted, must still be the registered transaction (unless its own timer expired)
	var setOp *c16op
	for _, o := range ops {
		if o.Kind == "set" && o.OK {
			setOp = o
		}
	}
	t1Rollbacks, t2Rollbacks := 0, 0
	for _, id := range rec.calls {
		switch {
		case strings.HasPrefix(id, "T1"):
			t1Rollbacks++
		case strings.HasPrefix(id, "T2"):
			t2Rollbacks++
		}
	}
	// with a reused id a Confirm that returned after the Set was invoked may have confirmed T2: such runs cannot be attributed
	ambiguous := false
	if reuse {
		for _, o := range ops {
			if o.Kind == "confirm" && o.OK {
				for _, s2 := range ops {
					if s2.Kind == "set" && s2.OK && o.Ret > s2.Call {
						ambiguous = true
					}
				}
			}
		}
		// more than one accepted Set under the same id cannot be told apart either
		nset := 0
		for _, o := range ops {
			if o.Kind == "set" && o.OK {
				nset++
			}
		}
		if nset > 1 {
			ambiguous = true
		}
		if ambiguous {
			rc.Probe("id-reused-ambiguous")
			return
		}
	}
	sig := []string{}
	for _, o := range ops {
		sig = append(sig, fmt.Sprintf("%s:%s=%t/%t", o.Kind, o.ID, o.OK, o.Locked))
	}
	sort.Strings(sig)
	rc.SigAdd(strings.Join(sig, ",") + fmt.Sprintf("|rb%d", t1Rollbacks))
	rc.SigAdd(strings.Join(sched.Trace, ">"))
	rc.Count("interleavings")
	if len(ops) >= 2 {
		rc.NonTrivial()
	}
	for p, n := range sched.PointHits {
		for i := 0; i < n; i++ {
			rc.Probe("yield-" + p)
		}
	}
	f := map[string]string{"ops": strings.Join(sig, ",")}
	for _, p := range panics {
		ff := copyFields(f)
		ff["signature"] = firstLine(p)
		rc.Report(sim.Item{Prop: "C16", Clause: "C16.panic", Fields: ff, Detail: p})
	}
	confirmOK, cancelOK := 0, 0
	for _, o := range ops {
		if o.ID == "T1" && o.OK {
			if o.Kind == "confirm" {
				confirmOK++
			} else if o.Kind == "cancel" {
				cancelOK++
			}
		}
		if o.ID == "zz" && o.OK {
			rc.Report(sim.Item{Prop: "C16", Clause: "C16.wrong-id-ok", Fields: f, Detail: fmt.Sprintf("%s(zz) returned success", o.Kind)})
		}
		if o.ID == "T1" && o.Locked && o.Kind != "set" {
			onlySets := true
			for _, k := range o.Others {
				if k != "set" {
					onlySets = false
				}
			}
			if onlySets && len(o.Others) > 0 && o.SetMidAttempt {
				// the TransactionSet was inside a registration attempt at that instant: a transient refusal, not the wait
				rc.Probe("refused-transient")
			}
			// (in the free-running leg nobody is parked, "mid attempt" cannot be told from "waiting": not judged there)
			if onlySets && len(o.Others) > 0 && !o.SetMidAttempt && !free {
				rc.Probe("refused-while-set-waiting")
				ff := copyFields(f)
				ff["op"] = o.Kind
				rc.Report(sim.Item{Prop: "C16", Clause: "C16.refused-while-set-waiting", Fields: ff,
					Detail: fmt.Sprintf("%s(T1) for the open transaction was refused with 'Datastore is locked' while the only other call in flight was a TransactionSet sleeping between registration attempts", o.Kind)})
			}
		}
	}
	if confirmOK > 0 && t1Rollbacks > 0 {
		rc.Report(sim.Item{Prop: "C16", Clause: "C16.confirmed-but-rolled-back", Fields: f, Detail: fmt.Sprintf("Confirm(T1) returned success and T1 was rolled back %d time(s)", t1Rollbacks)})
	}
	if confirmOK+cancelOK > 1 {
		rc.Report(sim.Item{Prop: "C16", Clause: "C16.resolved-twice", Fields: f, Detail: fmt.Sprintf("%d Confirm and %d Cancel of T1 returned success", confirmOK, cancelOK)})
	}
	if cancelOK > 0 && t1Rollbacks != 1 {
		rc.Report(sim.Item{Prop: "C16", Clause: "C16.cancel-rollback-count", Fields: f, Detail: fmt.Sprintf("Cancel(T1) returned success; %d rollbacks of T1 were applied (expected exactly 1)", t1Rollbacks)})
	}
	if confirmOK == 0 && cancelOK == 0 && t1Rollbacks != 1 {
		rc.Report(sim.Item{Prop: "C16", Clause: "C16.expiry-rollback-count", Fields: f, Detail: fmt.Sprintf("nobody resolved T1; after its deadline %d rollbacks were applied (expected exactly 1)", t1Rollbacks)})
	}
	if setOp != nil && t2Rollbacks == 0 {
		// T2 was accepted and has not expired: it must still be confirmable
		_, err := w.Srv.TransactionConfirm(w.Ctx, &sdcpb.TransactionConfirmRequest{DatastoreName: world.DSName, TransactionId: t2Wire})
		if err != nil {
			rc.Report(sim.Item{Prop: "C16", Clause: "C16.t2-unregistered", Fields: f, Detail: fmt.Sprintf("T2 was accepted but is no longer the open transaction (%s): T1's late rollback cleared the slot", normErr(err))})
		}
	}
	// linearizability of the recorded history against the slot model
	var pops []porcupine.Operation
	for i, o := range ops {
		if o.Call == 0 {
			continue
		}
		if o.Ret == 0 {
			o.Ret = rc.Seq()
		}
		pops = append(pops, porcupine.Operation{ClientId: i, Input: c16in{o.Kind, o.ID}, Call: int64(o.Call), Output: c16out{o.OK, o.Locked}, Return: int64(o.Ret)})
	}
	if expSeen {
		// the expiry's rollback is the T1 rollback performed by the timer goroutine
		ret, did := rc.Seq(), false
		for i, id := range rec.calls {
			if strings.HasPrefix(id, "T1") && strings.HasPrefix(rec.who[i], "sut:timer") {
				ret, did = rec.spans[i][1], true
				break
			}
		}
		pops = append(pops, porcupine.Operation{ClientId: 99, Input: c16in{"expire", "T1"}, Call: int64(expCall), Output: c16out{OK: did}, Return: int64(ret)})
		rc.Probe("expiry-raced")
	}
	if len(pops) > 0 && !free {
		r := porcupine.CheckOperationsTimeout(c16Model(), pops, 10*time.Second)
		if r == porcupine.Illegal {
			desc := []string{}
			for _, p := range pops {
				desc = append(desc, fmt.Sprintf("[%d..%d] %v -> %v", p.Call, p.Return, p.Input, p.Output))
			}
			rc.Report(sim.Item{Prop: "C16", Clause: "C16.not-linearizable", Fields: f, Detail: "history is not linearizable against the transaction-slot model: " + strings.Join(desc, "; ")})
		}
	}
}

func firstLine(s string) string {
	if i := strings.Index(s, "\n"); i >= 0 {
		return s[:i]
	}
	return s
}

func init() {
	Register(&sim.Check{
		ID: "C16", Level: "exploration", Run: runC16,
		Rule: "one applied transaction T1 (timeout 1/2/5 s) and 1-3 client tasks drawn from {Confirm(T1), Cancel(T1), Confirm(other), Cancel(other), SetTx(T2)} started at offsets around the deadline; the seeded cooperative scheduler interleaves them and the rollback-timer goroutine at the yield points in pkg/datastore/types (every manager-lock acquisition, timer wake-up, the unsynchronised timer reset, rollback entry) and decides when the fake clock advances. In a quarter of the runs the competing TransactionSet reuses T1's id (only Confirm(T1) and that Set race the timer then; runs whose Confirm may have hit the successor are not judged). Oracle: no panic / process death / livelock, exactly-once resolution, agreement with client answers, T2 not un-registered, porcupine linearizability against the slot model. Non-trivial = >=2 racing tasks; distinct = hash of outcomes + released-task sequence.",
		Real: realCore, Stub: stubCore, CrashIsViolation: true, HangIsViolation: true,
		RequiredProbes: []string{"yield-tm.confirm", "yield-tm.cancel", "yield-timer.fired", "yield-tm.rollback", "yield-tm.register", "expiry-raced"},
		QuickSeconds:   30, ThoroughSeconds: 600,
	})
}
