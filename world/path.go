package world

import (
	"fmt"
	"sort"
	"strings"

	sdcpb "github.com/sdcio/sdc-protos/sdcpb"
)

// PElem / Path: the harness's structural instance path (names + key name->value maps).
type PElem struct {
	Name string
	Keys map[string]string
}

type Path []PElem

func P(elems ...PElem) Path { return Path(elems) }

func E(name string, kv ...string) PElem {
	e := PElem{Name: name}
	if len(kv) > 0 {
		e.Keys = map[string]string{}
		for i := 0; i+1 < len(kv); i += 2 {
			e.Keys[kv[i]] = kv[i+1]
		}
	}
	return e
}

func (e PElem) String() string {
	if len(e.Keys) == 0 {
		return e.Name
	}
	ks := make([]string, 0, len(e.Keys))
	for k := range e.Keys {
		ks = append(ks, k)
	}
	sort.Strings(ks)
	var sb strings.Builder
	sb.WriteString(e.Name)
	for _, k := range ks {
		fmt.Fprintf(&sb, "[%s=%s]", k, e.Keys[k])
	}
	return sb.String()
}

// String is the canonical structural rendering; used as map key in models.
func (p Path) String() string {
	var sb strings.Builder
	for _, e := range p {
		sb.WriteString("/")
		sb.WriteString(e.String())
	}
	if len(p) == 0 {
		return "/"
	}
	return sb.String()
}

func (p Path) Keyless() string {
	names := make([]string, len(p))
	for i, e := range p {
		names[i] = e.Name
	}
	return strings.Join(names, "/")
}

func (p Path) Clone() Path {
	out := make(Path, len(p))
	for i, e := range p {
		out[i] = PElem{Name: e.Name}
		if e.Keys != nil {
			out[i].Keys = map[string]string{}
			for k, v := range e.Keys {
				out[i].Keys[k] = v
			}
		}
	}
	return out
}

func (p Path) Child(name string) Path {
	c := p.Clone()
	return append(c, PElem{Name: name})
}

func (p Path) ToSdcpb() *sdcpb.Path {
	out := &sdcpb.Path{}
	for _, e := range p {
		pe := &sdcpb.PathElem{Name: e.Name}
		if len(e.Keys) > 0 {
			pe.Key = map[string]string{}
			for k, v := range e.Keys {
				pe.Key[k] = v
			}
		}
		out.Elem = append(out.Elem, pe)
	}
	return out
}

func FromSdcpb(p *sdcpb.Path) Path {
	out := Path{}
	for _, e := range p.GetElem() {
		pe := PElem{Name: e.GetName()}
		if len(e.GetKey()) > 0 {
			pe.Keys = map[string]string{}
			for k, v := range e.GetKey() {
				pe.Keys[k] = v
			}
		}
		out = append(out, pe)
	}
	return out
}

// elemMatches: does concrete elem c match pattern elem p (missing keys in p = wildcard)?
func elemMatches(p, c PElem) bool {
	if p.Name != c.Name {
		return false
	}
	for k, v := range p.Keys {
		if cv, ok := c.Keys[k]; !ok || cv != v {
			return false
		}
	}
	return true
}

// HasPrefix: element-wise; keys missing in the prefix are wildcards.
func (p Path) HasPrefix(prefix Path) bool {
	if len(prefix) > len(p) {
		return false
	}
	for i := range prefix {
		if !elemMatches(prefix[i], p[i]) {
			return false
		}
	}
	return true
}

func (p Path) Equal(o Path) bool { return p.String() == o.String() }

// ListEntryPrefixes returns every prefix of p that ends in a list entry (elem with keys).
func (p Path) ListEntryPrefixes() []Path {
	var out []Path
	for i, e := range p {
		if len(e.Keys) > 0 {
			out = append(out, p[:i+1].Clone())
		}
	}
	return out
}

// CacheSlice renders the path the way data-server stores it: names followed by key values
// in alphabetical key-name order (utils.ToStrings). Harness-side reimplementation for decoding dumps.
func (p Path) CacheSlice() []string {
	var out []string
	for _, e := range p {
		out = append(out, e.Name)
		ks := make([]string, 0, len(e.Keys))
		for k := range e.Keys {
			ks = append(ks, k)
		}
		sort.Strings(ks)
		for _, k := range ks {
			out = append(out, e.Keys[k])
		}
	}
	return out
}

// FromCacheSlice decodes a stored string-slice path using the schema table. Key values are assigned to
// key names in alphabetical key-name order (the order data-server writes them, utils.ToStrings).
func (si *SchemaInfo) FromCacheSlice(sl []string) (Path, error) {
	var out Path
	node := si.Nodes[""]
	i := 0
	for i < len(sl) {
		name := sl[i]
		var child *Node
		if node != nil {
			child = si.Nodes[joinKeyless(node.Keyless, name)]
		}
		if child == nil {
			return nil, fmt.Errorf("cache path %v: unknown element %q at %d", sl, name, i)
		}
		pe := PElem{Name: name}
		i++
		if child.Kind == KList && i < len(sl) {
			ks := append([]string(nil), child.Keys...)
			sort.Strings(ks)
			pe.Keys = map[string]string{}
			for _, k := range ks {
				if i >= len(sl) {
					return nil, fmt.Errorf("cache path %v: missing key value for %s", sl, k)
				}
				pe.Keys[k] = sl[i]
				i++
			}
		}
		out = append(out, pe)
		node = child
	}
	return out, nil
}

// Node returns the schema node for an instance path.
func (si *SchemaInfo) Node(p Path) *Node { return si.Nodes[p.Keyless()] }
