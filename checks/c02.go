package checks

import "verif/sim"

func runC02(rc *sim.RunCtx) {
	h, err := NewHist(rc, HistOpts{Profiles: []string{"core", "core", "presence"}, MinTx: 2, MaxTx: 10,
		Oracles: map[string]bool{"C01": true, "C02": true}})
	if err != nil {
		rc.HarnessErr("world: %v", err)
		return
	}
	defer h.W.Close()
	if rc.T.Bool(1, 3) {
		// C02 does not depend on precedence: in a third of the runs owners may share a priority
		// (then only the store oracle runs, precedence between equal priorities is undefined)
		h.Cfg.EqualPrio = true
		h.Ops.Oracles = map[string]bool{"C02": true}
		rc.Buggify("equal-priorities")
		rc.Scenario("owners may share priorities")
	}
	// favour edits of existing (possibly shadowed) intents
	for _, k := range []string{"change", "shrink", "reprio", "delete"} {
		if h.Cfg.W[k] == 0 {
			h.Cfg.W[k] = 2
		}
	}
	n := tierLen(rc, h.Ops)
	for s := 0; s < n; s++ {
		h.AdvanceClock()
		h.Step(s)
	}
}

func init() {
	Register(&sim.Check{
		ID: "C02", Level: "exploration", Run: runC02,
		Rule: "same history generator as C01 with weights favouring change/shrink/reprio/delete of intents that are partly or wholly shadowed; after every accepted transaction the full intended store (all priorities, owners, timestamps; read through the undecorated cache client) is compared as a set of (path, owner, priority, value) with the model's last accepted version of every intent. Non-trivial/distinct as for C01.",
		Real: realCore, Stub: stubCore,
		RequiredProbes: []string{"shadowed-owner-edited", "edit-reprio", "edit-shrink", "edit-delete"},
		QuickSeconds:   35, ThoroughSeconds: 600,
	})
}
