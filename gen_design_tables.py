#!/usr/bin/env python3
"""Regenerates the generated tables of DESIGN.md (between the BEGIN/END GENERATED markers) from known-findings.json,
seeded/*/meta.json and evidence/*.json, so that the document cannot drift from what the machinery uses."""
import json, glob, os, re, subprocess
def cell(s): return str(s).replace("|", "\\|").replace("\n", " ")
kf = json.load(open('/verif/known-findings.json'))['findings']
out = []
out.append("#### Repaired defects (`fix:` commits in /repo, `fixed` entries of known-findings.json)\n")
out.append("| id | property | commit | clause first seen | what failed |\n|---|---|---|---|---|")
for f in kf:
    if f['status'] == 'fixed':
        out.append(f"| {f['id']} | {f['property']} | {f.get('commit','')} | {f['clause']} | {cell(f['what'])} |")
out.append("\n#### Open known findings (recorded, not repaired; each check prints them as KNOWN-FINDING lines)\n")
out.append("| id | property | clause | matcher (item fields) | what fails |\n|---|---|---|---|---|")
for f in kf:
    if f['status'] == 'open':
        out.append(f"| {f['id']} | {f['property']} | {f['clause']} | {cell(json.dumps(f.get('match',{})))} | {cell(f['what'])} |")
out.append("\n#### Seeded changes (/verif/seeded/<id>/: patch.diff, demonstration, meta.json)\n")
out.append("| id | property | what it needs to manifest | detection |\n|---|---|---|---|")
for d in sorted(os.listdir('/verif/seeded')):
    m = json.load(open(f'/verif/seeded/{d}/meta.json'))
    needs = m.get('needs','')
    if len(needs) > 420: needs = needs[:420] + " …"
    out.append(f"| {d} | {m['property']} | {cell(needs)} | {cell(m.get('caught_by','?'))} |")
out.append("\n#### Last committed evidence (quick tier, unchanged tree)\n")
out.append("| check | level | runs | non-trivial | distinct | runs/hour | simulated s | faults fired | known findings seen |\n|---|---|---|---|---|---|---|---|---|")
for f in sorted(glob.glob('/verif/evidence/C*.json')):
    e = json.load(open(f)); c = e['coverage']
    ff = ", ".join(f"{k}:{v}" for k, v in sorted(c.get('faults_fired', {}).items())) or "-"
    ks = ", ".join(f"{k}:{v}" for k, v in sorted(c.get('known_findings_seen', {}).items())) or "-"
    out.append(f"| {e['property_id']} ({e['tier']}) | {e['level']} | {c['evaluations']} | {c.get('nontrivial_runs','')} | {c['distinct_nontrivial']} | {c.get('runs_per_hour','')} | {int(c.get('simulated_seconds',0))} | {cell(ff)} | {cell(ks)} |")
text = "\n".join(out) + "\n"
p = '/verif/DESIGN.md'
s = open(p).read()
b, e = "<!-- BEGIN GENERATED TABLES -->", "<!-- END GENERATED TABLES -->"
if b in s:
    s = s[:s.index(b) + len(b)] + "\n" + text + s[s.index(e):]
    open(p, 'w').write(s)
    print("tables regenerated")
else:
    print("markers missing")
