package sim

import (
	"time"
)

// Pred decides whether an outcome still shows "the same failure".
type Pred func(o *Outcome) bool

func tapeLess(a, b []uint32) bool {
	if len(a) != len(b) {
		return len(a) < len(b)
	}
	for i := range a {
		if a[i] != b[i] {
			return a[i] < b[i]
		}
	}
	return false
}

// Minimize shrinks a failing tape (tape-level internal reduction, DESIGN A.5) within a wall-clock budget.
// Every candidate is executed in a worker (fresh bubble); a reduction is kept only while pred holds.
func Minimize(p *Pool, base Request, tape []uint32, pred Pred, budget time.Duration) ([]uint32, *Outcome, int) {
	deadline := time.Now().Add(budget)
	best := append([]uint32(nil), tape...)
	var bestOut *Outcome
	tried := 0
	try := func(cands [][]uint32) bool {
		if len(cands) == 0 || time.Now().After(deadline) {
			return false
		}
		reqs := make([]Request, len(cands))
		for i, c := range cands {
			r := base
			r.Replay = true
			r.Tape = c
			r.KeepLog = false
			reqs[i] = r
		}
		outs := p.DoAll(reqs)
		tried += len(cands)
		found := false
		for i, o := range outs {
			if o == nil || o.Crashed != "" && !pred(o) {
				continue
			}
			if pred(o) {
				used := o.Tape
				if len(used) == 0 || len(used) > len(cands[i]) {
					used = cands[i]
				}
				if tapeLess(used, best) {
					best = append([]uint32(nil), used...)
					bestOut = o
					found = true
				}
			}
		}
		return found
	}
	// pass 0: confirm and take the consumed prefix
	try([][]uint32{best})
	for round := 0; round < 20 && time.Now().Before(deadline); round++ {
		improved := false
		// truncate (tail zeroing is implicit: reads past the end return 0)
		for cut := len(best) / 2; cut >= 1; cut /= 2 {
			for {
				if len(best) <= cut {
					break
				}
				if !try([][]uint32{best[:len(best)-cut]}) {
					break
				}
				improved = true
			}
		}
		// delete chunks
		for _, size := range []int{16, 8, 4, 2, 1} {
			i := 0
			for i+size <= len(best) && time.Now().Before(deadline) {
				var cands [][]uint32
				var starts []int
				for k := 0; k < 16 && i+size <= len(best); k++ {
					c := append(append([]uint32(nil), best[:i]...), best[i+size:]...)
					cands = append(cands, c)
					starts = append(starts, i)
					i += size
				}
				if try(cands) {
					improved = true
					i = 0
					if len(starts) > 0 {
						i = starts[0]
					}
				}
			}
		}
		// zero, then halve / decrement single entries
		i := 0
		for i < len(best) && time.Now().Before(deadline) {
			var cands [][]uint32
			for k := 0; k < 16 && i < len(best); k++ {
				if best[i] != 0 {
					c := append([]uint32(nil), best...)
					c[i] = 0
					cands = append(cands, c)
					if best[i] > 1 {
						c2 := append([]uint32(nil), best...)
						c2[i] = best[i] / 2
						cands = append(cands, c2)
						c3 := append([]uint32(nil), best...)
						c3[i] = best[i] - 1
						cands = append(cands, c3)
					}
				}
				i++
			}
			if try(cands) {
				improved = true
			}
		}
		if !improved {
			break
		}
	}
	return best, bestOut, tried
}
