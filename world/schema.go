// Package world builds the simulated world around the real data-server code:
// real schema store, real badger-backed cache, real Datastore/Server, stub devices.
package world

import (
	"context"
	"fmt"
	"os"
	"sort"
	"strings"
	"sync"

	dConfig "github.com/sdcio/data-server/pkg/config"
	dschema "github.com/sdcio/data-server/pkg/schema"
	sConfig "github.com/sdcio/schema-server/pkg/config"
	sschema "github.com/sdcio/schema-server/pkg/schema"
	"github.com/sdcio/schema-server/pkg/store/memstore"
	sdcpb "github.com/sdcio/sdc-protos/sdcpb"
)

type NodeKind int

const (
	KContainer NodeKind = iota
	KList
	KLeaf
	KLeafList
)

// Node is one entry of the harness's schema table (extracted once from the real schema store).
type Node struct {
	Keyless   string // "k1/val"
	Name      string
	Kind      NodeKind
	Keys      []string // declared order
	Type      *sdcpb.SchemaLeafType
	Default   string
	IsState   bool
	Presence  bool
	Mandatory bool
	Namespace string
	Module    string
	Prefix    string
	Children  []string // names, sorted
	Parent    *Node
	// choice membership of this node within its parent: choice name -> case name
	Choice string
	Case   string
	// for containers: choices declared directly in it
	Choices map[string]map[string][]string // choice -> case -> elements
}

func (n *Node) IsKeyLeaf() bool {
	if n.Parent == nil || n.Parent.Kind != KList {
		return false
	}
	for _, k := range n.Parent.Keys {
		if k == n.Name {
			return true
		}
	}
	return false
}

type SchemaInfo struct {
	Client dschema.Client
	Cfg    *dConfig.SchemaConfig
	Nodes  map[string]*Node // keyless path -> node ("" = root)
}

var (
	schemaOnce sync.Once
	schemaInfo *SchemaInfo
	schemaErr  error
)

func SchemaDir() string {
	if d := os.Getenv("VSIM_SCHEMA_DIR"); d != "" {
		return d
	}
	return "/verif/schema"
}

// LoadSchema loads the vsim YANG modules through the real schema-server memstore (once per process).
func LoadSchema() (*SchemaInfo, error) {
	schemaOnce.Do(func() {
		ms := memstore.New()
		sc := &sConfig.SchemaConfig{Name: "vsim", Vendor: "verif", Version: "v1", Files: []string{SchemaDir()}}
		s, err := sschema.NewSchema(sc)
		if err != nil {
			schemaErr = err
			return
		}
		if err = ms.AddSchema(s); err != nil {
			schemaErr = err
			return
		}
		si := &SchemaInfo{
			Client: dschema.NewLocalClient(ms),
			Cfg:    &dConfig.SchemaConfig{Name: sc.Name, Vendor: sc.Vendor, Version: sc.Version},
			Nodes:  map[string]*Node{},
		}
		schemaErr = si.walk(context.Background(), nil, nil)
		schemaInfo = si
	})
	return schemaInfo, schemaErr
}

func (si *SchemaInfo) sdcpbSchema() *sdcpb.Schema {
	return &sdcpb.Schema{Name: si.Cfg.Name, Vendor: si.Cfg.Vendor, Version: si.Cfg.Version}
}

func (si *SchemaInfo) walk(ctx context.Context, parent *Node, names []string) error {
	p := &sdcpb.Path{}
	for _, n := range names {
		p.Elem = append(p.Elem, &sdcpb.PathElem{Name: n})
	}
	rsp, err := si.Client.GetSchema(ctx, &sdcpb.GetSchemaRequest{Path: p, Schema: si.sdcpbSchema()})
	if err != nil {
		return fmt.Errorf("schema walk %v: %w", names, err)
	}
	n := &Node{Keyless: strings.Join(names, "/"), Parent: parent}
	if len(names) > 0 {
		n.Name = names[len(names)-1]
	}
	switch s := rsp.GetSchema().GetSchema().(type) {
	case *sdcpb.SchemaElem_Container:
		c := s.Container
		n.Kind = KContainer
		if len(c.Keys) > 0 {
			n.Kind = KList
		}
		for _, k := range c.Keys {
			n.Keys = append(n.Keys, k.Name)
		}
		n.IsState, n.Presence, n.Namespace, n.Module, n.Prefix = c.IsState, c.IsPresence, c.Namespace, c.ModuleName, c.Prefix
		n.Choices = map[string]map[string][]string{}
		for chn, ch := range c.GetChoiceInfo().GetChoice() {
			n.Choices[chn] = map[string][]string{}
			for cn, cs := range ch.GetCase() {
				n.Choices[chn][cn] = append([]string(nil), cs.GetElements()...)
			}
		}
		set := map[string]bool{}
		for _, k := range c.Keys {
			set[k.Name] = true
		}
		for _, f := range c.Fields {
			set[f.Name] = true
		}
		for _, l := range c.Leaflists {
			set[l.Name] = true
		}
		for _, ch := range c.Children {
			if len(names) == 0 {
				// the root lists modules; their children are the top-level nodes
				mrsp, err := si.Client.GetSchema(ctx, &sdcpb.GetSchemaRequest{Path: &sdcpb.Path{Elem: []*sdcpb.PathElem{{Name: ch}}}, Schema: si.sdcpbSchema()})
				if err != nil {
					return fmt.Errorf("schema walk module %s: %w", ch, err)
				}
				for _, mc := range mrsp.GetSchema().GetContainer().GetChildren() {
					set[mc] = true
				}
				for _, mf := range mrsp.GetSchema().GetContainer().GetFields() {
					set[mf.Name] = true
				}
				continue
			}
			set[ch] = true
		}
		for k := range set {
			n.Children = append(n.Children, k)
		}
		sort.Strings(n.Children)
		si.Nodes[n.Keyless] = n
		for _, ch := range n.Children {
			if err := si.walk(ctx, n, append(append([]string{}, names...), ch)); err != nil {
				return err
			}
		}
		for _, mc := range c.MandatoryChildren {
			if cn, ok := si.Nodes[joinKeyless(n.Keyless, mc.Name)]; ok {
				cn.Mandatory = true
			}
		}
	case *sdcpb.SchemaElem_Field:
		f := s.Field
		n.Kind = KLeaf
		n.Type, n.Default, n.IsState, n.Namespace, n.Module, n.Prefix = f.Type, f.Default, f.IsState, f.Namespace, f.ModuleName, f.Prefix
		n.Mandatory = f.IsMandatory
		si.Nodes[n.Keyless] = n
	case *sdcpb.SchemaElem_Leaflist:
		l := s.Leaflist
		n.Kind = KLeafList
		n.Type, n.IsState, n.Namespace, n.Module, n.Prefix = l.Type, l.IsState, l.Namespace, l.ModuleName, l.Prefix
		si.Nodes[n.Keyless] = n
	default:
		return fmt.Errorf("schema walk %v: unknown schema kind", names)
	}
	if parent != nil {
		for chn, cases := range parent.Choices {
			for cn, elems := range cases {
				for _, e := range elems {
					if e == n.Name {
						n.Choice, n.Case = chn, cn
					}
				}
			}
		}
	}
	return nil
}

func joinKeyless(a, b string) string {
	if a == "" {
		return b
	}
	return a + "/" + b
}

// Lookup returns the node for a keyless path.
func (si *SchemaInfo) Lookup(keyless string) *Node { return si.Nodes[keyless] }
