package sim

import (
	"bytes"
	"fmt"
	"runtime"
	"sort"
	"strconv"
	"sync"
	"testing/synctest"
	"time"
)

func curGID() uint64 {
	var buf [64]byte
	n := runtime.Stack(buf[:], false)
	// "goroutine 123 ["
	b := buf[:n]
	b = bytes.TrimPrefix(b, []byte("goroutine "))
	i := bytes.IndexByte(b, ' ')
	id, _ := strconv.ParseUint(string(b[:i]), 10, 64)
	return id
}

type ptask struct {
	name  string
	point string
	ch    chan struct{}
}

// Sched is the cooperative seeded scheduler (DESIGN 2.3b): tasks are real goroutines that park at yield points
// and seam calls; exactly one is released at a time, chosen from the tape; the clock only moves when the tape says so.
type Sched struct {
	rc          *RunCtx
	mu          sync.Mutex
	parked      map[uint64]*ptask
	names       map[uint64]string
	counter     map[string]int
	passthrough bool
	alive       int
	Quanta      []time.Duration
	Trace       []string
	PointHits   map[string]int
	OnRelease   func(name, point string)
	// Fair: never advance the clock while a task is parked (used once liveness is being measured)
	Fair func() bool
}

func NewSched(rc *RunCtx, quanta ...time.Duration) *Sched {
	return &Sched{rc: rc, parked: map[uint64]*ptask{}, names: map[uint64]string{}, counter: map[string]int{}, Quanta: quanta, PointHits: map[string]int{}, passthrough: true}
}

// Yield parks the calling goroutine until the scheduler releases it (no-op in passthrough mode).
func (s *Sched) Yield(point string) { s.yield(point, false) }

// yield with force parks also in passthrough mode: a task started with Go must not run a single step before the scheduler
// releases it, whether or not Enable was called already (a goroutine that won the race against Enable used to run unscheduled).
func (s *Sched) yield(point string, force bool) {
	s.mu.Lock()
	s.PointHits[point]++
	if s.passthrough && !force {
		s.mu.Unlock()
		return
	}
	gid := curGID()
	name, ok := s.names[gid]
	if !ok {
		s.counter[point]++
		name = fmt.Sprintf("sut:%s#%d", point, s.counter[point])
		s.names[gid] = name
	}
	t := &ptask{name: name, point: point, ch: make(chan struct{})}
	s.parked[gid] = t
	s.mu.Unlock()
	<-t.ch
}

// Go starts a harness task under the scheduler. The task parks at "start" first.
func (s *Sched) Go(name string, f func()) {
	s.mu.Lock()
	s.alive++
	s.mu.Unlock()
	go func() {
		gid := curGID()
		s.mu.Lock()
		s.names[gid] = name
		s.mu.Unlock()
		defer func() {
			s.mu.Lock()
			s.alive--
			delete(s.names, gid)
			s.mu.Unlock()
		}()
		s.yield("start", true)
		f()
	}()
}

// Enable switches from passthrough to scheduled mode.
func (s *Sched) Enable() {
	s.mu.Lock()
	s.passthrough = false
	s.mu.Unlock()
}

// Drain switches to passthrough and releases everything that is parked.
func (s *Sched) Drain() {
	s.mu.Lock()
	s.passthrough = true
	for gid, t := range s.parked {
		close(t.ch)
		delete(s.parked, gid)
	}
	s.mu.Unlock()
}

// Run drives the schedule until no harness task is alive and nothing is parked, or maxSteps decisions were taken.
// Returns false if the step budget ran out.
func (s *Sched) Run(maxSteps int) bool {
	idle := 0
	for step := 0; step < maxSteps; step++ {
		synctest.Wait()
		s.mu.Lock()
		list := make([]*ptask, 0, len(s.parked))
		gids := map[string]uint64{}
		for gid, t := range s.parked {
			list = append(list, t)
			gids[t.name] = gid
		}
		alive := s.alive
		s.mu.Unlock()
		sort.Slice(list, func(i, j int) bool { return list[i].name < list[j].name })
		if len(list) == 0 && alive == 0 {
			return true
		}
		n := len(list)
		c := n
		if n > 0 {
			if s.Fair != nil && s.Fair() {
				c = s.rc.T.Choose(n)
			} else {
				c = s.rc.T.Choose(n + 1)
			}
		}
		if c == n {
			q := s.Quanta[s.rc.T.Choose(len(s.Quanta))]
			if s.Fair != nil && s.Fair() && q > 50*time.Millisecond {
				// while liveness is measured the scheduler must not inflate simulated time itself
				q = 50 * time.Millisecond
			}
			s.Trace = append(s.Trace, fmt.Sprintf("clock+%s", q))
			s.rc.Logf("SCHED clock +%s (parked=%d alive=%d)", q, n, alive)
			time.Sleep(q)
			s.rc.AddSim(q.Seconds())
			if n == 0 {
				idle++
				if idle > 2000 {
					return false
				}
			}
			continue
		}
		idle = 0
		t := list[c]
		s.Trace = append(s.Trace, t.name+"@"+t.point)
		s.rc.Logf("SCHED run %s @%s (of %d parked)", t.name, t.point, n)
		if s.OnRelease != nil {
			s.OnRelease(t.name, t.point)
		}
		s.mu.Lock()
		delete(s.parked, gids[t.name])
		s.mu.Unlock()
		close(t.ch)
	}
	return false
}

// CurrentName returns the scheduler's name for the calling goroutine ("" if unknown).
func (s *Sched) CurrentName() string {
	gid := curGID()
	s.mu.Lock()
	defer s.mu.Unlock()
	return s.names[gid]
}

// ParkedAt returns the yield point a named task is currently parked at ("" if it is not parked).
func (s *Sched) ParkedAt(name string) string {
	s.mu.Lock()
	defer s.mu.Unlock()
	for _, t := range s.parked {
		if t.name == name {
			return t.point
		}
	}
	return ""
}
