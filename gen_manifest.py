#!/usr/bin/env python3
"""Generates MANIFEST.json from the table below (kept in one place so it stays valid)."""
import json, subprocess
checks = {
 "C01": ("exploration", "Seeded simulation of TransactionSet histories against the real datastore, tree, cache (badger) and schema store on a fake clock; the device is the direct one (proto view) or, in more than half of the runs, a real target in front of an in-process device that decodes what goes over the wire: the real gnmiTarget (proto/json/json_ietf) or the real ncTarget (candidate+commit or running; XML documents applied under NETCONF merge semantics); the device state is compared with an executable merge model after every accepted transaction. Sampling, not proof: thousands of distinct histories per minute.", "4 C01"),
 "C02": ("exploration", "Same simulated histories; the complete intended store is dumped through the undecorated cache client after every step and compared, entry by entry, with the model's last accepted version of every intent.", "4 C02"),
 "C03": ("exploration", "Histories over a schema exercising every constraint class with dry runs, invalid values (0/8/20 % per draw) and an invalid replace intent; rejected and dry-run calls must cause no device call and leave both stores identical; a dry run followed by the same request for real must send exactly what was reported.", "4 C03"),
 "C04": ("exploration", "Same histories with validator switches drawn per run; the verdict is compared with the harness's own constraint evaluator over the configuration the merge model predicts, and (metamorphic) with the verdict for that configuration flattened into one intent on a fresh empty datastore.", "4 C04"),
 "C05": ("exploration", "Histories plus one unconfirmed transaction ended by cancel or by fake-clock expiry; intended store and touched device paths compared with the snapshot from before the transaction.", "4 C05"),
 "C06": ("exploration", "Seeded operation sequences (Set valid/invalid/dry-run/device-error, Confirm/Cancel with matching/stale/unknown ids, waits around the deadline) on the fake clock, judged by a transaction-slot reference model with a liveness probe.", "4 C06"),
 "C08": ("exploration", "C01 histories over the choice profile (top-level, in lists, nested; multi-member cases; prefix-named non-members): per choice instance at most one case on the device and it is the one with the highest-precedence live contribution; the merge-model items about nodes inside a choice member (winning case missing or with a wrong value, e.g. after a takeover by a case of an intent outside the transaction) are judged here as well (choice-aware merge model).", "4 C08"),
 "C09": ("exploration", "Histories with verbatim re-submissions in every input form; the proto, JSON, JSON_IETF and 8 XML renderings of the same tree instance must be empty and both stores unchanged; in part of the runs the device first reports its whole configuration back in device-native formats (gNMI notifications with prefix and relative paths, typed / JSON / JSON_IETF, or a NETCONF get-config reply) through the real converters and Datastore.Sync, so that the running store holds what the device said.", "4 C09"),
 "C07": ("fault_enumeration", "For a generated history and a chosen transaction, every collaborator call (target.Set, cache Read/ReadCh/GetKeys/Modify, schema GetSchema) is numbered in a counting pass; sampled (call, fault kind) pairs incl. torn writes, lost acks, short reads, device reject/unreachable/lost reply and fail-stop crash + restart over the same badger directory are injected one at a time in fresh worlds (at the wire when the device is the real gnmiTarget), the request is retried and the outcome compared with the fault-free reference run; a cancel leg does the same for TransactionCancel (one collaborator call of the rollback fails once, the cancel is repeated).", "4 C07"),
 "C10": ("exploration", "On every Set of generated histories the direct device asks the same tree instance for proto, JSON, JSON_IETF and the 8 XML documents (change and full views); each is decoded by the harness's own schema-driven decoders, applied to a copy of the prior device state under its protocol's semantics and compared; XML well-formedness, namespace, key-order and operation clauses are checked per document. Wire leg: with the real gnmiTarget (proto/json/json_ietf) or the real ncTarget (candidate / running) the request that went over the wire must be decodable and have the same effect as the proto view of the same tree (shadow device).", "4 C10"),
 "C11": ("exploration", "C01/C02 histories over the adversarial profile (prefix-related names and key values, separator characters in keys, lists with 2 and 3 keys in non-alphabetical order): every path is followed through request, tree, cache key, device and response and compared structurally by the model oracles; ToPath(ToStrings(p)) and ParsePath(ToXPath(p)) asserted on every path of a run. Claimed for what crosses parties, not for the cross product of pure converters.", "4 C11"),
 "C12": ("exploration", "Single-leaf transactions over one leaf per YANG built-in type x boundary/interior values x input form (typed, string, JSON / JSON_IETF document, JSON / JSON_IETF scalar or array on the leaf's own path); the value at the device, in the intended store and returned by GetData in four encodings must denote the supplied datum (abstract value domain), so must the XML text and JSON documents of the same tree and the real gNMI wire encodings; echo leg: the device reports the value back in a native form (gNMI typed/JSON/JSON_IETF, NETCONF get-config reply) through the real converters and Datastore.Sync, the running store must hold the datum; equal data must not be re-sent. Claimed for the compositions the running system performs.", "4 C12"),
 "C13": ("exploration", "Scripted device notifications (re-sync cycles, on-change updates/deletes, JSON blobs, state leaves) into the real Datastore.Sync with 1/2/16 write workers; every cache write of a sync worker parks in a decorator and the seeded scheduler chooses the completion order; CONFIG/STATE compared with a sequential running-mirror model at quiescence; a quarter of the runs are echo cycles (full re-sync of a device state in device-native gNMI / NETCONF formats through the real converters, prune, same mirror oracle).", "4 C13"),
 "C18": ("fault_enumeration", "The real ncTarget.Set is driven around an in-process netconf.Driver with XML change documents captured from real trees; for both commit-datastore settings, the 8 option combinations and every failure point of the driver call sequence (with and without rpc-error warnings) - enumerated completely per document - the recorded call sequence and the fake device's candidate are judged.", "4 C18"),
 "C19": ("exploration", "Server.GetData/Subscribe/WatchDeviations run against fake server streams under the seeded scheduler; Send failures at every index, stalls, slow consumers and client cancellation at every tick; bounded return after the stream ends, no panic, no goroutine left at bubble end (synctest).", "4 C19"),
 "C14": ("exploration", "GetData through Server.GetData with a fake stream for drawn path sets x 4 encodings x MAIN/INTENDED selections after histories with prefix-related keys and names; the answer is compared with the actual store content (direct dump) filtered element-wise; unknown paths must fail without data.", "4 C14"),
 "C15": ("exploration", "After histories and drift written into the CONFIG store the real DeviationMgr runs on the fake clock; the messages of one cycle on a fake WatchDeviations stream are compared as a multiset with a deviation model computed from dumps of both stores; part of the drift arrives as typed device echoes through the real Sync (same datum in another representation must not be reported).", "4 C15"),
 "C17": ("exploration", "Arm A (deterministic, two thirds of the runs): every goroutine of RootEntry.Validate parks at yield points compiled into pkg/tree (validation goroutine start, lazy load of a running value or default, child creation, value insertion) and is released one at a time by the seeded scheduler; the verdict under each schedule must equal the sequential verdict, for the transaction pipeline and for trees built without the running store whose validators load values on demand; a schedule that kills the process is minimised through a dumped tape. One third of the runs let the goroutines run free (differential). Thorough tier: the simulator is rebuilt with the Go race detector and any DATA RACE report whose accesses are not both inside the harness is a violation (runtime monitoring arm for the 'no unsynchronised access' half, stated as such).", "4 C17"),
 "C20": ("exploration", "Seeded structural mutation of peer messages delivered to the running simulated system: TransactionSet and GetData requests, device notifications (incl. odd JSON documents on container, list and root paths) and NETCONF get-config replies that are well-formed at the protobuf/XML level but arbitrary above it; oracle: every call returns within 60 simulated seconds, no panic in any goroutine (worker death = violation), no goroutine left at bubble end, and the stores and device are unchanged by rejected requests.", "4 C20"),
 "C16": ("exploration", "Seeded cooperative scheduler over yield points at every transaction-manager lock acquisition and timer event: Confirm/Cancel/expiry/competing Set interleavings on the real Datastore; exactly-once, agreement with client answers, process survival, porcupine linearizability against the slot model; a variant lets the competing Set reuse T1's id.", "4 C16"),
}
technique = {
 "C07": "deterministic simulation with fault injection: one fault per collaborator call (device, cache, schema, crash+restart) enumerated over a counting pass, retry compared with the fault-free reference run",
 "C13": "deterministic simulation: seeded scheduler chooses the completion order of parked cache writes of the real Sync workers; sequential running-mirror model at quiescence",
 "C16": "deterministic simulation: seeded cooperative scheduler over yield points in the transaction manager and timer, fake clock; exactly-once and porcupine linearizability oracles",
 "C17": "deterministic simulation: validation goroutines parked at pkg/tree yield points and released by the seeded scheduler, sequential verdict as oracle; plus a race-detector build (runtime monitoring) in the thorough tier",
 "C18": "deterministic fault enumeration: every failure point of the NETCONF driver call sequence per captured change document, call-sequence grammar oracle",
 "C19": "deterministic simulation: fake server streams whose Send parks under the seeded scheduler, injected Send failures, stalls and cancellations on the fake clock; bounded-return and leak oracles",
 "C20": "deterministic simulation with message garbling: seeded structural mutation of peer messages, liveness bound on the fake clock, process-survival oracle with crash-tape minimisation",
 "C06": "deterministic simulation on a fake clock: seeded operation sequences with timer expiry and device errors, transaction-slot reference model with liveness probe",
 "C05": "deterministic simulation on a fake clock: histories ended by cancel or timer expiry, snapshot-equality oracle",
}
def hooks_commits():
    out = subprocess.run(["git","-C","/repo","log","--format=%h %s"],capture_output=True,text=True).stdout.splitlines()
    return [l.split()[0] for l in out if "verif hooks" in l]
m = {
 "version": 1,
 "setup_cmd": "./run.sh setup",
 "hooks": {
  "guard": "verif (Go build tag)",
  "enable": "go1.26.8 test -c -tags verif ./cmd/vsim (module /verif, replace github.com/sdcio/data-server => /repo)",
  "baseline_off_cmd": "cd /repo && GOFLAGS=-mod=mod GOPROXY=off GOSUMDB=off GOTOOLCHAIN=local go test -vet=off -count=1 -timeout 25m ./...",
  "source_commits": hooks_commits(),
  "add_only": True,
 },
 "engines": [{"name": "vsim", "path": "/verif/sim, /verif/world, /verif/checks", "serves_properties": sorted(checks), "kind_free_text": "deterministic simulator: choice tape, testing/synctest fake clock, seeded cooperative scheduler, fault-injecting decorators, reference models, tape minimiser"}],
 "checks": [],
 "notes": "All checks: ./run.sh <ID> quick|thorough; replay: ./run.sh <ID> --replay <file>; determinism self-test: ./run.sh selftest. Known findings: known-findings.json.",
 "not_applicable": [],
}
allprops = [json.loads(l)["id"] for l in open("/verif/properties.jsonl")]
NA = json.load(open("/verif/not_applicable.json")) if __import__("os").path.exists("/verif/not_applicable.json") else {}
for pid in allprops:
    if pid in checks:
        lvl, text, ref = checks[pid]
        m["checks"].append({
          "property_id": pid, "quick_cmd": f"./run.sh {pid} quick", "thorough_cmd": f"./run.sh {pid} thorough",
          "evidence_file": f"/verif/evidence/{pid}.json", "replay_cmd_template": f"./run.sh {pid} --replay {{path}}",
          "engine": "vsim", "level_claimed": {"category": lvl, "text": text, "design_ref": "DESIGN.md §" + ref},
          "level_note": "Trusted: Go 1.26.8 + testing/synctest, sdcio/cache + badger, schema-server/goyang, the harness's device model, decoders and reference models. Bounded: <=4 owners, <=3 intents per transaction, vsim schema, histories <= 20 transactions.",
          "technique": technique.get(pid, "deterministic simulation: seeded histories on a fake clock against the real datastore, reference-model oracle after every step, tape minimisation and replay"),
        })
    else:
        m["not_applicable"].append({"property_id": pid, "reason": NA.get(pid, "check not built yet in this round (planned, see DESIGN.md §4); not claimed")})
json.dump(m, open("/verif/MANIFEST.json","w"), indent=1)
print("manifest written:", len(m["checks"]), "checks")
