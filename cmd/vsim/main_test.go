package vsim

import (
	"os"
	"strings"
	"testing"

	"verif/checks"
	"verif/sim"
)

// TestVsim is the entry point of the simulator binary (a test binary because testing/synctest needs a *testing.T).
// VSIM_MODE=worker: run requests from stdin. Otherwise: parent with VSIM_ARGS.
func TestVsim(t *testing.T) {
	if os.Getenv("VSIM_MODE") == "worker" {
		sim.WorkerLoop(t, checks.Get)
		return
	}
	args := strings.Fields(os.Getenv("VSIM_ARGS"))
	if len(args) == 0 {
		t.Skip("VSIM_ARGS not set")
	}
	code := sim.ParentMain(args, checks.Get, checks.IDs)
	os.Exit(code)
}
