#!/bin/bash
# usage: seedconfirm.sh <ID> : confirms in /tmp/seed-<ID> that (1) build ok, (2) existing tests pass with the change, (3) demo fails with, passes without
export GOFLAGS=-mod=mod GOPROXY=off GOSUMDB=off GOTOOLCHAIN=local
id=$1; wt=${2:-/tmp/seed-$id}; out=/tmp/seed-out/$id
cd $wt || exit 2
demo_cmd=$(python3 -c "import json;print(json.load(open('$out/meta.json'))['demo_cmd'])")
demofiles=$(git status --porcelain | grep '^??' | awk '{print $2}' | grep _test.go)
echo "demo files: $demofiles ; demo cmd: $demo_cmd"
git diff --stat | tail -1
go build ./... && echo BUILD-OK
# existing tests with the change, demo moved aside
mkdir -p /tmp/seed-aside-$id; for f in $demofiles; do mv $f /tmp/seed-aside-$id/$(echo $f | tr / _); done
go test -vet=off -count=1 ./... 2>&1 | grep -v "no test files" | grep -v "^ok" ; echo "EXISTING-TESTS-DONE (no lines above = all ok)"
for f in $demofiles; do cp /tmp/seed-aside-$id/$(echo $f | tr / _) $f; done
echo "--- demo WITH change:"; (eval "$demo_cmd") 2>&1 | grep -E "^(ok|FAIL|---|panic)" | head -8
git diff > /tmp/seed-aside-$id/change.diff; git apply -R /tmp/seed-aside-$id/change.diff
echo "--- demo WITHOUT change:"; (eval "$demo_cmd") 2>&1 | grep -E "^(ok|FAIL|---|panic)" | head -8
git apply /tmp/seed-aside-$id/change.diff
