package checks

import (
	"context"
	"fmt"
	"sort"
	"strings"
	"time"

	sdcpb "github.com/sdcio/sdc-protos/sdcpb"

	"verif/sim"
	"verif/world"
)

// collectGet runs Datastore.Get (through Server.GetData with a fake stream) and decodes the leaves.
func collectGet(rc *sim.RunCtx, w *world.World, req *sdcpb.GetDataRequest) (map[string]string, int, error) {
	st := world.NewFakeStream[*sdcpb.GetDataResponse](w.Ctx, "getdata", world.StreamPlan{FailAt: -1, StallAt: -1, CancelDelay: -1}, nil)
	defer st.Cancel()
	errCh := make(chan error, 1)
	go func() { errCh <- w.Srv.GetData(req, st) }()
	var err error
	select {
	case err = <-errCh:
	case <-time.After(60 * time.Second):
		return nil, 0, fmt.Errorf("HANG")
	}
	out := map[string]string{}
	for _, rsp := range st.Sent {
		for _, n := range rsp.GetNotification() {
			for _, u := range n.GetUpdate() {
				switch v := u.GetValue().GetValue().(type) {
				case *sdcpb.TypedValue_JsonVal:
					leaves, derr := w.SI.DecodeJSON(world.FromSdcpb(u.GetPath()), v.JsonVal)
					if derr != nil {
						return out, len(st.Sent), fmt.Errorf("DECODE %v", derr)
					}
					for _, l := range leaves {
						out[l.Path.String()] = world.NormAbs(l.Abs)
					}
				case *sdcpb.TypedValue_JsonIetfVal:
					leaves, derr := w.SI.DecodeJSON(world.FromSdcpb(u.GetPath()), v.JsonIetfVal)
					if derr != nil {
						return out, len(st.Sent), fmt.Errorf("DECODE %v", derr)
					}
					for _, l := range leaves {
						out[l.Path.String()] = world.NormAbs(l.Abs)
					}
				default:
					p := world.FromSdcpb(u.GetPath())
					out[p.String()] = world.NormAbs(world.AbsTV(w.SI.Node(p), u.GetValue()))
				}
			}
		}
	}
	return out, len(st.Sent), err
}

func runC14(rc *sim.RunCtx) {
	t := rc.T
	h, err := NewHist(rc, HistOpts{Profiles: []string{"core", "adversarial"}, MinTx: 2, MaxTx: 6, Oracles: map[string]bool{}})
	if err != nil {
		rc.HarnessErr("world: %v", err)
		return
	}
	w := h.W
	defer w.Close()

	n := tierLen(rc, h.Ops)
	for s := 0; s < n; s++ {
		h.AdvanceClock()
		h.Step(s)
	}
	// some state data
	E, P := world.E, world.P
	stLeaves := []*MLeaf{NewMLeaf(w.SI, P(E("st"), E("counter")), "7"), NewMLeaf(w.SI, P(E("sys"), E("uptime")), "99")}
	for _, l := range stLeaves {
		u, _ := w.RawCache.NewUpdate(&sdcpb.Update{Path: l.Path.ToSdcpb(), Value: MkTV(l.Node, l.Lex, "typed")})
		if err := writeStore(w, "STATE", u); err != nil {
			rc.HarnessErr("state seed: %v", err)
			return
		}
	}
	cfgDump, err1 := w.DumpConfig()
	stDump, err2 := w.DumpState()
	intDump, err3 := w.DumpIntended()
	if err1 != nil || err2 != nil || err3 != nil {
		rc.HarnessErr("dump: %v %v %v", err1, err2, err3)
		return
	}
	// candidate request paths
	cands := []world.Path{P(E("sys")), P(E("k1")), P(E("k1", "name", "a")), P(E("k1", "name", "ab")), P(E("k1", "name", "b")), P(E("k1x")), P(E("k1x", "name", "a")),
		P(E("sys"), E("ext")), P(E("sys"), E("hostname")), P(E("sys"), E("opts")), P(E("k2o")), P(E("k2o", "a", "a")), P(E("k2o", "a", "a", "b", "b")), P(E("k1", "name", "a"), E("val")),
		P(E("k1", "name", "a"), E("sub")), P(E("st")), P(E("ch")), P(E("k1", "name", "zz")), P(E("sys"), E("tags"))}
	for _, e := range cfgDump {
		if len(e.Path) > 1 && t.Bool(1, 6) {
			cands = append(cands, e.Path[:len(e.Path)-1])
		}
	}
	nq := 3 + t.Choose(5)
	for q := 0; q < nq; q++ {
		var paths []world.Path
		np := 1 + t.Weighted([]int{5, 2, 1})
		for i := 0; i < np; i++ {
			paths = append(paths, cands[t.Choose(len(cands))])
		}
		unknown := t.Bool(1, 10)
		if unknown {
			paths = []world.Path{P(E("sys"), E("nosuchleaf"))}
		}
		dsType := []sdcpb.Type{sdcpb.Type_MAIN, sdcpb.Type_MAIN, sdcpb.Type_INTENDED}[t.Choose(3)]
		dataType := []sdcpb.DataType{sdcpb.DataType_CONFIG, sdcpb.DataType_ALL, sdcpb.DataType_STATE}[t.Weighted([]int{4, 3, 2})]
		owner, prio := "", int32(0)
		if dsType == sdcpb.Type_INTENDED {
			dataType = sdcpb.DataType_CONFIG
			names := h.M.LiveNames()
			if len(names) == 0 {
				continue
			}
			owner = names[t.Choose(len(names))]
			prio = h.M.Live[owner].Prio
		}
		// ground truth: actual store content under the requested paths
		want := map[string]string{}
		add := func(es []world.StoreEntry, filter func(world.StoreEntry) bool) {
			for _, e := range es {
				if filter != nil && !filter(e) {
					continue
				}
				for _, rp := range paths {
					if e.Path.HasPrefix(rp) {
						want[e.Path.String()] = world.NormAbs(e.Abs)
					}
				}
			}
		}
		switch {
		case dsType == sdcpb.Type_INTENDED:
			add(intDump, func(e world.StoreEntry) bool { return e.Owner == owner && e.Prio == prio })
		case dataType == sdcpb.DataType_CONFIG:
			add(cfgDump, nil)
		case dataType == sdcpb.DataType_STATE:
			add(stDump, nil)
		default:
			add(cfgDump, nil)
			add(stDump, nil)
		}
		results := map[string]map[string]string{}
		encs := []sdcpb.Encoding{sdcpb.Encoding_STRING, sdcpb.Encoding_PROTO, sdcpb.Encoding_JSON, sdcpb.Encoding_JSON_IETF}
		pathStrs := []string{}
		for _, p := range paths {
			pathStrs = append(pathStrs, p.String())
		}
		sort.Strings(pathStrs)
		rc.Step()
		rc.Scenario("GetData %v type=%s data=%s owner=%s prio=%d", pathStrs, dsType, dataType, owner, prio)
		rc.SigAdd(fmt.Sprintf("get|%d|%s|%s|n%d", len(paths), dsType, dataType, len(want)))
		if len(want) > 0 {
			rc.NonTrivial()
		}
		for _, enc := range encs {
			req := &sdcpb.GetDataRequest{Name: world.DSName, Datastore: &sdcpb.DataStore{Type: dsType, Owner: owner, Priority: prio}, DataType: dataType, Encoding: enc}
			for _, p := range paths {
				req.Path = append(req.Path, p.ToSdcpb())
			}
			got, nmsg, gerr := collectGet(rc, w, req)
			f := map[string]string{"encoding": enc.String(), "type": dsType.String(), "data": dataType.String(), "paths": strings.Join(pathStrs, " ")}
			rc.Logf("GETDATA %s %s %s %v -> %d msgs %d leaves err=%v", enc, dsType, dataType, pathStrs, nmsg, len(got), gerr != nil)
			if gerr != nil && strings.HasPrefix(gerr.Error(), "HANG") {
				rc.Report(sim.Item{Prop: "C19", Clause: "C19.getdata-hangs", Fields: f, Detail: "GetData did not return within 60 simulated seconds"})
				return
			}
			if gerr != nil && strings.HasPrefix(gerr.Error(), "DECODE") {
				rc.Report(sim.Item{Prop: "C14", Clause: "C14.undecodable", Fields: f, Detail: gerr.Error()})
				continue
			}
			if unknown {
				if gerr == nil {
					rc.Report(sim.Item{Prop: "C14", Clause: "C14.unknown-path-no-error", Fields: f, Detail: "request for a path that is not in the schema did not fail"})
				}
				if nmsg > 0 {
					rc.Report(sim.Item{Prop: "C14", Clause: "C14.unknown-path-partial-data", Fields: f, Detail: fmt.Sprintf("%d data messages delivered for an unknown path", nmsg)})
				}
				continue
			}
			if gerr != nil {
				ff := copyFields(f)
				ff["error"] = normErr(gerr)
				if nmsg > 0 {
					rc.Report(sim.Item{Prop: "C14", Clause: "C14.error-with-partial-data", Fields: ff, Detail: fmt.Sprintf("error %s after %d data messages", normErr(gerr), nmsg)})
				} else {
					rc.Report(sim.Item{Prop: "C14", Clause: "C14.valid-request-failed", Fields: ff, Detail: normErr(gerr)})
				}
				continue
			}
			results[enc.String()] = got
			// compare with ground truth
			var extra, missing, wrong []string
			for k, v := range got {
				wv, ok := want[k]
				if !ok {
					extra = append(extra, k)
				} else if enc != sdcpb.Encoding_STRING && wv != v {
					wrong = append(wrong, fmt.Sprintf("%s: got %s want %s", k, v, wv))
				}
			}
			for k := range want {
				if _, ok := got[k]; !ok {
					missing = append(missing, k)
				}
			}
			if enc == sdcpb.Encoding_JSON || enc == sdcpb.Encoding_JSON_IETF {
				// a JSON document has to carry the key leaves of the list entries it descends through
				var keep []string
				for _, k := range extra {
					kp := mustPath(w, k)
					if n := w.SI.Node(kp); n != nil && n.IsKeyLeaf() {
						entry := kp[:len(kp)-1]
						implied := false
						for _, rp := range paths {
							if rp.HasPrefix(entry) || entry.HasPrefix(rp) {
								implied = true
							}
						}
						for wk := range want {
							if mustPath(w, wk).HasPrefix(entry) {
								implied = true
							}
						}
						if implied {
							continue
						}
					}
					keep = append(keep, k)
				}
				extra = keep
			}
			sort.Strings(extra)
			sort.Strings(missing)
			sort.Strings(wrong)
			// requests that run through lists whose keys are declared in non-alphabetical order are marked (item field nonalpha)
			prop14, pfx := "C14", "C14."
			nonAlpha := false
			for _, rp := range paths {
				for i := range rp {
					if n := w.SI.Node(rp[:i+1]); n != nil && n.Kind == world.KList && !sort.StringsAreSorted(n.Keys) {
						nonAlpha = true
					}
				}
			}
			f["nonalpha"] = fmt.Sprint(nonAlpha)
			if len(extra) > 0 {
				ff := copyFields(f)
				// relation of the extra leaves to the requested paths
				rel := "none"
				for _, k := range extra {
					for _, rp := range paths {
						if strings.HasPrefix(strings.Join(mustPath(w, k).CacheSlice(), ","), strings.Join(rp.CacheSlice(), ",")) {
							rel = "string-prefix"
						}
					}
				}
				ff["relation"] = rel
				rc.Report(sim.Item{Prop: prop14, Clause: pfx + "extra-leaf", Fields: ff, Detail: fmt.Sprintf("leaves outside the requested paths returned: %v", extra)})
			}
			if len(missing) > 0 {
				rc.Report(sim.Item{Prop: prop14, Clause: pfx + "missing-leaf", Fields: f, Detail: fmt.Sprintf("stored leaves under the requested paths not returned: %v", missing)})
			}
			if len(wrong) > 0 {
				rc.Report(sim.Item{Prop: prop14, Clause: pfx + "wrong-value", Fields: f, Detail: strings.Join(wrong, "; ")})
			}
		}
	}
	_ = context.Background
}

func mustPath(w *world.World, s string) world.Path {
	// inverse of Path.String for the paths this check produces (keys never contain ']' here)
	var p world.Path
	for _, seg := range strings.Split(strings.TrimPrefix(s, "/"), "/") {
		e := world.PElem{}
		if i := strings.Index(seg, "["); i >= 0 {
			e.Name = seg[:i]
			e.Keys = map[string]string{}
			for _, kv := range strings.Split(strings.Trim(seg[i:], "[]"), "][") {
				if j := strings.Index(kv, "="); j >= 0 {
					e.Keys[kv[:j]] = kv[j+1:]
				}
			}
		} else {
			e.Name = seg
		}
		p = append(p, e)
	}
	return p
}

func init() {
	Register(&sim.Check{
		ID: "C14", Level: "exploration", Run: runC14,
		Rule: "after a generated history (profiles core and adversarial: list keys a/ab/'a/b_c', siblings k1/k1x, sys/ext vs sys/extleaf) plus seeded state leaves, 3-7 GetData requests per run with 1-3 paths drawn from root containers, lists, entries with full or partial keys, leaves, absent entries and unknown paths x {MAIN config/state/all, INTENDED with owner+priority} are issued in all four encodings through Server.GetData with a fake stream. Ground truth is the actual store content (direct dump through the undecorated cache) filtered by an element-wise subtree filter. Non-trivial = request with a non-empty expected answer; distinct = (#paths, store selection, expected size).",
		Real: append(append([]string{}, realCore...), "pkg/server GetData handler, pkg/datastore Get + per-encoding readers, pkg/tree ToJson/ToJsonIETF"), Stub: append(append([]string{}, stubCore...), "gRPC server stream (fake)"),
		QuickSeconds: 30, ThoroughSeconds: 420,
	})
}

func writeStore(w *world.World, store string, u interface{}) error {
	return w.WriteStoreNamed(store, u)
}

// ParsePath parses the canonical rendering of a Path (keys without ']' or '/').
func ParsePath(s string) world.Path { return mustPath(nil, s) }
