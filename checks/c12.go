package checks

import (
	"context"
	"fmt"
	"sort"
	"strings"
	"time"

	sdcpb "github.com/sdcio/sdc-protos/sdcpb"

	"github.com/sdcio/data-server/pkg/config"
	"github.com/sdcio/data-server/pkg/datastore/target"

	"verif/sim"
	"verif/world"
)

var c12values = []struct {
	leaf string
	lex  []string
}{
	{"i8", []string{"-128", "127", "0"}}, {"i16", []string{"-32768", "32767"}}, {"i32", []string{"-2147483648", "2147483647"}},
	{"i64", []string{"-9223372036854775808", "9223372036854775807", "-1", "-9007199254740993"}},
	{"u8", []string{"0", "255"}}, {"u16", []string{"65535"}}, {"u32", []string{"4294967295", "7"}},
	{"u64", []string{"18446744073709551615", "9223372036854775808", "42", "9007199254740993"}},
	{"dec1", []string{"-1.5", "0.1", "3.0"}}, {"dec2", []string{"1.50", "-0.05", "12.34"}}, {"dec18", []string{"0.000000000000000001", "-9.223372036854775808"}},
	{"bool", []string{"true", "false"}}, {"emp", []string{""}},
	{"en", []string{"up", "down", "two words"}}, {"idr", []string{"kind-a", "kind-b", "kind-x"}},
	{"un", []string{"5", "auto", "hello"}}, {"str", []string{"x y", "ä/b_c:d", "0042"}},
	{"lstr", []string{"a,b", "z"}}, {"lu32", []string{"1,4294967295", "0"}}, {"len", []string{"red,blue", "green"}},
}

func runC12(rc *sim.RunCtx) {
	t := rc.T
	devKind := []string{"direct", "gnmi-proto", "gnmi-json", "gnmi-json_ietf"}[t.Weighted([]int{3, 2, 1, 2})]
	wk := devKind
	if wk == "direct" {
		wk = ""
	}
	// sync validation on: what the device reports is converted to the YANG type of the leaf before it is stored (the setting under
	// which the running store can be compared with intents at all)
	syncValidate := true
	w, err := world.New(rc, world.Opts{DisableConcurrency: t.Bool(1, 2), DevKind: wk, CaptureEncodings: devKind == "direct",
		Sync: &config.Sync{Validate: syncValidate, Buffer: 16, WriteWorkers: 1, Config: []*config.SyncProtocol{{Name: "cfg", Protocol: "gnmi", Mode: "on-change"}}}})
	if err != nil {
		rc.HarnessErr("world: %v", err)
		return
	}
	defer w.Close()
	// the real Datastore.Sync consumes what the device reports back (echo leg)
	var syncCh chan *target.SyncUpdate
	ready := make(chan struct{})
	w.Dev.SyncFn = func(ctx context.Context, cfg *config.Sync, c chan *target.SyncUpdate) {
		syncCh = c
		close(ready)
		<-ctx.Done()
	}
	sctx, scancel := context.WithCancel(w.Ctx)
	defer scancel()
	go w.DS.Sync(sctx)
	<-ready
	si := w.SI
	rc.Scenario("device front end: %s", devKind)
	rc.Probe("dev-" + devKind)
	n := 2 + t.Choose(5)
	for step := 0; step < n; step++ {
		time.Sleep(time.Second)
		rc.AddSim(1)
		v := c12values[t.Choose(len(c12values))]
		lex := v.lex[t.Choose(len(v.lex))]
		form := []string{"typed", "string", "json", "json_ietf", "jsonleaf", "jsonleaf_ietf"}[t.Choose(6)]
		p := world.P(world.E("types"), world.E(v.leaf))
		l := NewMLeaf(si, p, lex)
		mform := form
		if l.Node.Kind == world.KLeafList && form == "string" {
			mform = "string!"
		}
		if l.Node.Type.GetType() == "empty" && form == "string" {
			form, mform = "typed", "typed" // an empty leaf has no lexical string form
		}
		owner := "o1"
		tx := &TxSpec{ID: fmt.Sprintf("v%d", step), Intents: []IntentSpec{{Name: owner, Prio: 10, Leaves: []*MLeaf{l}, Form: mform, Edit: "create"}}}
		rc.Step()
		rc.Scenario("%d: %s = %q as %s", step, p, lex, form)
		rc.Probe("type-" + l.Node.Type.GetType())
		rc.Probe("form-" + form)
		rc.SigAdd(fmt.Sprintf("%s|%s|%s", v.leaf, lex, form))
		rc.NonTrivial()
		f := map[string]string{"leaf": v.leaf, "type": l.Node.Type.GetType(), "form": form, "value": lex, "device": devKind, "echo": "none"}
		res := ExecTx(rc, w, tx, 5*time.Second)
		w.NoteTimer(30 * time.Second)
		if !res.Accepted() {
			ff := copyFields(f)
			ff["error"] = normErr(res.Err)
			if res.SetsAfter > res.SetsBefore {
				if we := w.Dev.Sets[res.SetsAfter-1].WireErr; we != "" {
					// the device could not decode what the real target sent for this value
					ff["wire_error"] = we
					rc.Report(sim.Item{Prop: "C12", Clause: "C12.wire-value-undecodable", Step: step, Fields: ff, Detail: fmt.Sprintf("the %s request the target built for this value cannot be decoded by the device: %s", devKind, we)})
					continue
				}
			}
			rc.Report(sim.Item{Prop: "C12", Clause: "C12.valid-value-rejected", Step: step, Fields: ff, Detail: fmt.Sprintf("a value valid for the leaf type was refused: %s %v", normErr(res.Err), res.IntentErrors)})
			continue
		}
		Confirm(rc, w, tx.ID)
		want := world.NormAbs(l.Abs)
		same := func(got string) bool {
			if got == want {
				return true
			}
			// an identityref rendered without a resolvable module is compared by name only
			if strings.HasPrefix(got, "idref:") && strings.HasPrefix(want, "idref:") && (strings.Contains(got, ":?") || strings.Contains(got, "?:")) {
				return got[strings.LastIndex(got, ":"):] == want[strings.LastIndex(want, ":"):]
			}
			return false
		}
		// device (proto view)
		if got, ok := w.Dev.State[p.String()]; !ok {
			// shadowed by the other owner with an equal value? then nothing is sent - judge through the store only
			_ = got
		} else if g := world.NormAbs(got.Abs); !same(g) {
			// only if this owner rules the path
			rc.Report(sim.Item{Prop: "C12", Clause: "C12.device-value", Step: step, Fields: f, Detail: fmt.Sprintf("device received %s, supplied datum is %s", g, want)})
		}
		// the NETCONF XML text and the JSON documents of the same tree (direct device: all renderings are captured)
		if res.SetsAfter > res.SetsBefore && devKind == "direct" {
			rec := w.Dev.Sets[res.SetsAfter-1]
			sent := false
			for _, u := range rec.Updates {
				if u.Path.String() == p.String() {
					sent = true
				}
			}
			if sent {
				combos := make([]string, 0, len(rec.XML))
				for c := range rec.XML {
					combos = append(combos, c)
				}
				sort.Strings(combos)
				for _, c := range combos {
					st, iss := si.ApplyXML(world.DevState{}, rec.XML[c], strings.HasPrefix(c, "ns1"), strings.Contains(c, "-op1-"), strings.HasSuffix(c, "-rem"))
					bad := ""
					for _, it := range iss.Items {
						if strings.HasPrefix(it, "C10.xml-malformed") || strings.HasPrefix(it, "C10.xml-unknown-element") {
							bad = it
						}
					}
					g, ok := st[p.String()]
					if bad != "" || !ok || !same(world.NormAbs(g.Abs)) {
						ff := copyFields(f)
						ff["encoding"] = "xml"
						ff["combo"] = c
						got := "absent"
						if ok {
							got = world.NormAbs(g.Abs)
						}
						rc.Report(sim.Item{Prop: "C12", Clause: "C12.xml-value", Step: step, Fields: ff, Detail: fmt.Sprintf("the XML text (%s) of the change denotes %s %s, supplied datum is %s\n%s", c, got, bad, want, rec.XML[c])})
						break
					}
				}
				for _, j := range []struct {
					name string
					v    any
				}{{"json", rec.JSON}, {"json_ietf", rec.JSONIETF}} {
					leaves, derr := si.DecodeJSONValue(world.Path{}, j.v)
					got := "absent"
					for _, l := range leaves {
						if l.Path.String() == p.String() {
							got = world.NormAbs(l.Abs)
						}
					}
					if derr != nil || !same(got) {
						ff := copyFields(f)
						ff["encoding"] = j.name
						rc.Report(sim.Item{Prop: "C12", Clause: "C12.json-value", Step: step, Fields: ff, Detail: fmt.Sprintf("the %s document of the change denotes %s (decode error: %v), supplied datum is %s: %v", j.name, got, derr, want, j.v)})
					}
				}
			}
		}
		// intended store
		dump, err := w.DumpIntended()
		if err != nil {
			rc.HarnessErr("dump: %v", err)
			return
		}
		found := false
		for _, e := range dump {
			if e.Path.String() == p.String() && e.Owner == owner {
				found = true
				if g := world.NormAbs(e.Abs); !same(g) {
					rc.Report(sim.Item{Prop: "C12", Clause: "C12.stored-value", Step: step, Fields: f, Detail: fmt.Sprintf("intended store holds %s, supplied datum is %s", g, want)})
				}
			}
		}
		if !found {
			rc.Report(sim.Item{Prop: "C12", Clause: "C12.stored-value", Step: step, Fields: f, Detail: "value not found in the intended store"})
		}
		// GetData in all encodings (running mirror) - only meaningful if this owner rules
		if cur, ok := w.Dev.State[p.String()]; ok && same(world.NormAbs(cur.Abs)) {
			for _, enc := range []sdcpb.Encoding{sdcpb.Encoding_STRING, sdcpb.Encoding_PROTO, sdcpb.Encoding_JSON, sdcpb.Encoding_JSON_IETF} {
				req := &sdcpb.GetDataRequest{Name: world.DSName, Datastore: &sdcpb.DataStore{Type: sdcpb.Type_MAIN}, DataType: sdcpb.DataType_CONFIG, Encoding: enc, Path: []*sdcpb.Path{p.ToSdcpb()}}
				got, _, gerr := collectGet(rc, w, req)
				ff := copyFields(f)
				ff["encoding"] = enc.String()
				if gerr != nil {
					ff["error"] = normErr(gerr)
					rc.Report(sim.Item{Prop: "C12", Clause: "C12.getdata-error", Step: step, Fields: ff, Detail: normErr(gerr)})
					continue
				}
				g, ok := got[p.String()]
				if !ok || !same(g) {
					rc.Report(sim.Item{Prop: "C12", Clause: "C12.getdata-value", Step: step, Fields: ff, Detail: fmt.Sprintf("GetData(%s) returned %q, supplied datum is %s", enc, g, want)})
				}
			}
		}
		// echo: the device reports the value back in one of its native forms; the running store must hold the datum
		// (and the re-submission below must still send nothing: equal data compare equal whatever form they came in)
		if t.Bool(1, 2) {
			c12Echo(rc, w, syncCh, l, echoForms[t.Choose(len(echoForms))], same, f, step)
		}
		// equal data must not look like a change: verbatim re-submission sends nothing
		sets0 := len(w.Dev.Sets)
		again := *tx
		again.ID = tx.ID + "-again"
		r2 := ExecTx(rc, w, &again, 5*time.Second)
		if r2.Accepted() {
			Confirm(rc, w, again.ID)
			if len(w.Dev.Sets) > sets0 {
				rec := w.Dev.Sets[len(w.Dev.Sets)-1]
				if len(rec.Updates)+len(rec.Deletes) > 0 {
					rc.Report(sim.Item{Prop: "C12", Clause: "C12.equal-data-resent", Step: step, Fields: f, Detail: "re-submitting the same datum produced device traffic (values that denote the same datum must compare equal)"})
				}
			}
		}
	}
}

func init() {
	Register(&sim.Check{
		ID: "C12", Level: "exploration", Run: runC12,
		Rule: "per run 2-6 single-leaf transactions over the types container of vsim: one leaf per YANG built-in type (int8..int64, uint8..uint64 incl. values above 2^63, decimal64 with fraction-digits 1/2/18 incl. negative and fractional, boolean, empty, enumeration incl. a name with a space, identityref from two modules, union of uint8|enum|string, string with separators, leaf-lists of string/uint32/enum) x boundary and interior values x input form (typed value, string, JSON / JSON_IETF document at the root, JSON / JSON_IETF scalar or array on the leaf's own path). The device is the direct one (proto view of the tree) or, in half of the runs, the REAL gnmiTarget (encodings proto / json / json_ietf) in front of an in-process gNMI client that decodes the wire SetRequest. After each accepted transaction the value at the device, the value the 8 NETCONF XML documents and the JSON / JSON_IETF documents of the same tree denote (direct device), the value in the intended store, and returned by GetData in STRING/PROTO/JSON/JSON_IETF must denote the supplied datum in the harness's abstract value domain; a verbatim re-submission must send nothing. Every step is non-trivial; distinct = (leaf, value, form).",
		Real: append(append([]string{}, realCore...), "pkg/utils converter.go/value.go/leaf_convert.go, pkg/datastore/data_rpc.go validateUpdate"), Stub: stubCore,
		Assume:       []string{"only the compositions the running system performs are checked (client -> datastore -> store -> device proto view -> GetData), not the cross product of pure converters; XML text from a device is not covered"},
		QuickSeconds: 30, ThoroughSeconds: 420,
	})
}
