package checks

import (
	"context"
	"fmt"
	"github.com/sdcio/data-server/pkg/config"
	"github.com/sdcio/data-server/pkg/datastore/target"
	"sort"
	"strings"
	"testing/synctest"
	"time"

	"github.com/sdcio/cache/proto/cachepb"
	sdcpb "github.com/sdcio/sdc-protos/sdcpb"

	"github.com/sdcio/data-server/pkg/cache"

	"verif/sim"
	"verif/world"
)

func runC15(rc *sim.RunCtx) {
	t := rc.T
	h, err := NewHist(rc, HistOpts{Profiles: []string{"core", "presence"}, MinTx: 2, MaxTx: 6, Oracles: map[string]bool{},
		Sync: &config.Sync{Validate: true, Buffer: 16, WriteWorkers: 1, Config: []*config.SyncProtocol{{Name: "cfg", Protocol: "gnmi", Mode: "on-change"}}}})
	if err != nil {
		rc.HarnessErr("world: %v", err)
		return
	}
	w := h.W
	defer w.Close()
	// the real Datastore.Sync: values the device reports in its native forms reach the running store through it
	var syncCh chan *target.SyncUpdate
	ready := make(chan struct{})
	w.Dev.SyncFn = func(ctx context.Context, cfg *config.Sync, c chan *target.SyncUpdate) {
		syncCh = c
		close(ready)
		<-ctx.Done()
	}
	sctx, scancel := context.WithCancel(w.Ctx)
	defer scancel()
	go w.DS.Sync(sctx)
	<-ready
	n := tierLen(rc, h.Ops)
	for s := 0; s < n; s++ {
		h.AdvanceClock()
		h.Step(s)
	}
	// ---- drift: the device changed behind data-server's back and sync mirrored it into CONFIG ----
	cfg0, err := w.DumpConfig()
	if err != nil {
		rc.HarnessErr("dump: %v", err)
		return
	}
	ndrift := t.Choose(5)
	for i := 0; i < ndrift; i++ {
		switch k := t.Choose(3); {
		case k == 0 && len(cfg0) > 0: // change a running value
			e := cfg0[t.Choose(len(cfg0))]
			for _, s := range h.G.Uni {
				if s.Path.String() == e.Path.String() {
					l := NewMLeaf(w.SI, s.Path, s.Lex[t.Choose(len(s.Lex))])
					u, _ := w.RawCache.NewUpdate(&sdcpb.Update{Path: l.Path.ToSdcpb(), Value: MkTV(l.Node, l.Lex, "typed")})
					w.WriteStore(cachepb.Store_CONFIG, u)
					rc.Scenario("drift: %s = %s", l.Path, l.Lex)
					rc.Probe("drift-change")
				}
			}
		case k == 1 && len(cfg0) > 0: // remove a running leaf
			e := cfg0[t.Choose(len(cfg0))]
			w.RawCache.Modify(context.Background(), world.DSName, &cache.Opts{Store: cachepb.Store_CONFIG}, [][]string{e.Raw}, nil)
			rc.Scenario("drift: %s removed", e.Path)
			rc.Probe("drift-remove")
		default: // unhandled config appears
			s := h.G.Uni[t.Choose(len(h.G.Uni))]
			l := NewMLeaf(w.SI, s.Path, s.Lex[t.Choose(len(s.Lex))])
			u, _ := w.RawCache.NewUpdate(&sdcpb.Update{Path: l.Path.ToSdcpb(), Value: MkTV(l.Node, l.Lex, "typed")})
			w.WriteStore(cachepb.Store_CONFIG, u)
			rc.Scenario("drift: %s = %s (new)", l.Path, l.Lex)
			rc.Probe("drift-add")
		}
	}
	// ---- typed values: an intent over one leaf per YANG type, and the device reporting the same or another datum back in one of
	// its native forms (gNMI typed / JSON / JSON_IETF, NETCONF XML) through the real converters and Datastore.Sync: the same datum
	// in another representation is not a deviation, another datum is
	if t.Bool(1, 2) {
		ntyped := 1 + t.Choose(3)
		for i := 0; i < ntyped; i++ {
			v := c12values[t.Choose(len(c12values))]
			lex := v.lex[t.Choose(len(v.lex))]
			p := world.P(world.E("types"), world.E(v.leaf))
			l := NewMLeaf(w.SI, p, lex)
			tx := &TxSpec{ID: fmt.Sprintf("ty%d", i), Intents: []IntentSpec{{Name: fmt.Sprintf("ot%d", i), Prio: int32(70 + i), Leaves: []*MLeaf{l}, Form: "typed", Edit: "create"}}}
			res := ExecTx(rc, w, tx, 5*time.Second)
			w.NoteTimer(30 * time.Second)
			if !res.Accepted() {
				continue
			}
			Confirm(rc, w, tx.ID)
			rep := l
			if t.Bool(1, 3) {
				rep = NewMLeaf(w.SI, p, v.lex[t.Choose(len(v.lex))]) // the device holds (possibly) another datum
			}
			form := echoForms[t.Choose(len(echoForms))]
			ns, err := echoNotifications(w, rep, form)
			if err != nil {
				continue
			}
			for _, n := range ns {
				syncCh <- &target.SyncUpdate{Update: n}
			}
			synctest.Wait()
			rc.Scenario("typed: %s = %q by ot%d, device reports %q as %s", p, lex, i, rep.Lex, form)
			rc.Probe("typed-echo")
		}
	}
	cfgDump, err1 := w.DumpConfig()
	intDump, err2 := w.DumpIntended()
	if err1 != nil || err2 != nil {
		rc.HarnessErr("dump: %v %v", err1, err2)
		return
	}
	// ---- deviation model ----
	running := map[string]world.StoreEntry{}
	for _, e := range cfgDump {
		running[e.Path.String()] = e
	}
	byPath := map[string][]world.StoreEntry{}
	for _, e := range intDump {
		byPath[e.Path.String()] = append(byPath[e.Path.String()], e)
	}
	want := map[string]int{}
	addWant := func(reason, intent, path, exp, cur string) {
		want[fmt.Sprintf("%s|%s|%s|exp=%s|cur=%s", reason, intent, path, exp, cur)]++
	}
	maxIntents := 0
	for p, e := range running {
		ints := byPath[p]
		if len(ints) == 0 {
			addWant("UNHANDLED", "", p, "", world.NormAbs(e.Abs))
			continue
		}
		sort.Slice(ints, func(i, j int) bool { return ints[i].Prio < ints[j].Prio })
		if len(ints) > maxIntents {
			maxIntents = len(ints)
		}
		if world.NormAbs(ints[0].Abs) != world.NormAbs(e.Abs) {
			addWant("NOT_APPLIED", ints[0].Owner, p, world.NormAbs(ints[0].Abs), world.NormAbs(e.Abs))
		}
		for _, o := range ints[1:] {
			if world.NormAbs(o.Abs) != world.NormAbs(ints[0].Abs) {
				addWant("OVERRULED", o.Owner, p, world.NormAbs(o.Abs), world.NormAbs(ints[0].Abs))
			}
		}
	}
	for p, ints := range byPath {
		if _, ok := running[p]; ok {
			continue
		}
		sort.Slice(ints, func(i, j int) bool { return ints[i].Prio < ints[j].Prio })
		addWant("NOT_APPLIED", ints[0].Owner, p, world.NormAbs(ints[0].Abs), "missing")
		for _, o := range ints[1:] {
			if world.NormAbs(o.Abs) != world.NormAbs(ints[0].Abs) {
				addWant("OVERRULED", o.Owner, p, world.NormAbs(o.Abs), world.NormAbs(ints[0].Abs))
			}
		}
	}
	// ---- observe one cycle ----
	st := world.NewFakeStream[*sdcpb.WatchDeviationResponse](world.PeerCtx(w.Ctx, "10.0.0.7:777"), "deviations", world.StreamPlan{FailAt: -1, StallAt: -1, CancelDelay: -1}, nil)
	dctx, dcancel := context.WithCancel(w.Ctx)
	go w.DS.DeviationMgr(dctx)
	done := make(chan error, 1)
	go func() { done <- w.Srv.WatchDeviations(&sdcpb.WatchDeviationRequest{Name: []string{world.DSName}}, st) }()
	time.Sleep(31 * time.Second)
	rc.AddSim(31)
	synctest.Wait()
	st.Cancel()
	dcancel()
	select {
	case <-done:
	case <-time.After(10 * time.Second):
		rc.Report(sim.Item{Prop: "C19", Clause: "C19.handler-hangs", Fields: map[string]string{"rpc": "watchdeviations"}, Detail: "WatchDeviations did not return after cancellation"})
	}
	got := map[string]int{}
	starts, ends := 0, 0
	inCycle := false
	for _, m := range st.Sent {
		switch m.GetEvent() {
		case sdcpb.DeviationEvent_START:
			starts++
			inCycle = true
			continue
		case sdcpb.DeviationEvent_END:
			ends++
			inCycle = false
			continue
		}
		if !inCycle {
			rc.Report(sim.Item{Prop: "C15", Clause: "C15.outside-bracket", Detail: "deviation message outside START/END"})
		}
		p := world.FromSdcpb(m.GetPath())
		node := w.SI.Node(p)
		exp, cur := "", ""
		if m.GetExpectedValue() != nil {
			exp = world.NormAbs(world.AbsTV(node, m.GetExpectedValue()))
		}
		if m.GetCurrentValue() != nil {
			cur = world.NormAbs(world.AbsTV(node, m.GetCurrentValue()))
		} else if m.GetReason() == sdcpb.DeviationReason_NOT_APPLIED {
			cur = "missing"
		}
		intent := m.GetIntent()
		if m.GetReason() == sdcpb.DeviationReason_UNHANDLED {
			intent = ""
		}
		got[fmt.Sprintf("%s|%s|%s|exp=%s|cur=%s", m.GetReason(), intent, p.String(), exp, cur)]++
	}
	rc.Step()
	rc.SigAdd(fmt.Sprintf("dev|n%d|maxint%d|drift%d", len(want), maxIntents, ndrift))
	if len(want) > 0 {
		rc.NonTrivial()
	}
	for k := range want {
		rc.Probe("want-" + strings.SplitN(k, "|", 2)[0])
	}
	if starts != 1 || ends != 1 {
		rc.Report(sim.Item{Prop: "C15", Clause: "C15.bracket", Detail: fmt.Sprintf("%d START and %d END events in one cycle", starts, ends)})
	}
	keys := map[string]bool{}
	for k := range want {
		keys[k] = true
	}
	for k := range got {
		keys[k] = true
	}
	ks := make([]string, 0, len(keys))
	for k := range keys {
		ks = append(ks, k)
	}
	sort.Strings(ks)
	for _, k := range ks {
		parts := strings.Split(k, "|")
		f := map[string]string{"reason": parts[0], "path": parts[2]}
		if strings.HasSuffix(k, "cur=missing") {
			f["missing_in_running"] = "true"
		}
		switch {
		case want[k] > got[k]:
			// is there a message for the same (reason, intent, path) with other values?
			f["kind"] = "absent"
			for g := range got {
				if strings.HasPrefix(g, strings.Join(parts[:3], "|")+"|") {
					f["kind"] = "wrong-values"
				}
			}
			rc.Report(sim.Item{Prop: "C15", Clause: "C15.missing-deviation", Fields: f, Detail: "expected deviation not reported: " + k})
		case got[k] > want[k]:
			f["kind"] = "unexpected"
			for wk := range want {
				if strings.HasPrefix(wk, strings.Join(parts[:3], "|")+"|") {
					f["kind"] = "wrong-values"
				}
			}
			// a NOT_APPLIED for a non-ruling intent of a path missing in running
			rc.Report(sim.Item{Prop: "C15", Clause: "C15.spurious-deviation", Fields: f, Detail: "reported but not a deviation by the statement: " + k})
		}
	}
}

func init() {
	Register(&sim.Check{
		ID: "C15", Level: "exploration", Run: runC15,
		Rule: "a generated history fills the intended store (1-4 owners per path, shadowed and ruling), then 0-4 drift events change, remove or add running leaves directly in the CONFIG store (as sync would); a fake WatchDeviations stream is registered, the real DeviationMgr runs and the fake clock is advanced past its 30 s ticker. In half of the runs intents over one leaf per YANG type are added and the device reports the same or another datum back in a native form (gNMI typed / JSON / JSON_IETF, NETCONF) through the real converters and Datastore.Sync. The messages between START and END are compared as a multiset of (reason, intent, path, expected, current) with a deviation model computed from direct dumps of both stores. Non-trivial = at least one expected deviation; distinct = (#expected, max intents per path, #drift events).",
		Real: append(append([]string{}, realCore...), "pkg/datastore DeviationMgr/runDeviationUpdate/WatchDeviations, pkg/server WatchDeviations"), Stub: append(append([]string{}, stubCore...), "gRPC server stream (fake)"),
		RequiredProbes: []string{"want-UNHANDLED", "want-NOT_APPLIED", "want-OVERRULED"},
		QuickSeconds:   30, ThoroughSeconds: 420,
	})
}
