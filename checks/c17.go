package checks

import (
	"context"
	"crypto/sha1"
	"encoding/hex"
	"fmt"
	"regexp"
	"runtime"
	"sort"
	"strings"
	"sync"
	"sync/atomic"
	"time"

	"github.com/sdcio/data-server/pkg/cache"
	"github.com/sdcio/data-server/pkg/config"
	schemaClient "github.com/sdcio/data-server/pkg/datastore/clients/schema"
	dschema "github.com/sdcio/data-server/pkg/schema"
	"github.com/sdcio/data-server/pkg/tree"
	sdcpb "github.com/sdcio/sdc-protos/sdcpb"
	"google.golang.org/grpc"
	"google.golang.org/protobuf/proto"

	"verif/sim"
	"verif/world"
)

var reHex = regexp.MustCompile(`0x[0-9a-f]+`)

func normMsgs(m map[string][]string) []string {
	var out []string
	for owner, es := range m {
		for _, e := range es {
			out = append(out, owner+": "+reHex.ReplaceAllString(e, "0x?"))
		}
	}
	sort.Strings(out)
	return out
}

// slowSchema widens the window in which a schema lookup is in flight (free-running legs only): the caller yields the
// processor a number of times before the lookup is answered.
type slowSchema struct {
	dschema.Client
	slow bool
	// lookups that were answered while another one was in flight (how often the window was met)
	inFlight, overlapped atomic.Int32
}

func (s *slowSchema) GetSchema(ctx context.Context, in *sdcpb.GetSchemaRequest, opts ...grpc.CallOption) (*sdcpb.GetSchemaResponse, error) {
	if s.slow {
		if s.inFlight.Add(1) > 1 {
			s.overlapped.Add(1)
		}
		defer s.inFlight.Add(-1)
		for i := 0; i < 200; i++ {
			runtime.Gosched()
		}
	}
	return s.Client.GetSchema(ctx, in, opts...)
}

// runC17: the same history is applied to two worlds that differ only in Validation.DisableConcurrency; every
// transaction's verdict (error/warning sets) must be identical, and identical over repetitions of the dry run.
func runC17(rc *sim.RunCtx) {
	// two thirds of the runs are arm A (validation goroutines under the seeded scheduler), one third lets them run free
	if rc.T.Choose(3) < 2 {
		runC17Scheduled(rc)
		return
	}
	rc.Probe("mode-free-running")
	runC17Free(rc)
}

// scheduledDryRun executes one dry-run TransactionSet on w with every goroutine of RootEntry.Validate parked at the pkg/tree
// yield points and released one at a time by the seeded scheduler. Returns the result and the hash of the schedule taken.
func scheduledDryRun(rc *sim.RunCtx, w *world.World, tx *TxSpec) (*TxResult, string, bool) {
	sched := sim.NewSched(rc, time.Millisecond)
	sched.Fair = func() bool { return true } // time plays no role inside validation: never advance the clock while somebody can run
	inValidate := false
	loads, defaults, children := 0, 0, 0
	var hookMu sync.Mutex // freshly spawned validation goroutines reach the hook in parallel, before they park
	tree.VerifYield = func(p string) {
		hookMu.Lock()
		switch p {
		case "tree.validate.begin":
			inValidate = true
			sched.Enable()
		case "tree.validate.end":
			inValidate = false
			hookMu.Unlock()
			sched.Drain()
			return
		}
		if inValidate {
			switch {
			case strings.HasPrefix(p, "tree.tryload:"):
				loads++
			case strings.HasPrefix(p, "tree.trydefault:"):
				defaults++
			case strings.HasPrefix(p, "tree.validate:"):
				children++
			}
		}
		hookMu.Unlock()
		sched.Yield(p)
	}
	defer func() { tree.VerifYield = nil }()
	var got *TxResult
	done := make(chan struct{})
	sched.Go("client", func() {
		defer close(done)
		got = ExecTx(rc, w, tx, 0)
	})
	ok := sched.Run(20000)
	sched.Drain()
	<-done
	if loads > 0 {
		rc.Probe("pipeline-lazy-load-during-validate")
	}
	if defaults > 0 {
		rc.Probe("pipeline-default-load-during-validate")
	}
	if children > 1 {
		rc.Probe("yield-tree.validate")
	}
	h := sha1.New()
	for _, l := range sched.Trace {
		h.Write([]byte(l))
		h.Write([]byte{0})
	}
	rc.Count("scheduled-validations")
	return got, hex.EncodeToString(h.Sum(nil))[:12], ok
}

// partialTreeValidate builds a tree the way lowlevelTransactionSet does - real tree context over the real cache and schema
// client, the intents' updates inserted as new - but WITHOUT loading the running store into it, so that the validators have to
// load running values and defaults on demand (the trees the property quantifies over). It validates once; with sched != nil the
// validation goroutines run under the seeded scheduler.
func partialTreeValidate(rc *sim.RunCtx, w *world.World, tx *TxSpec, sequential bool, scheduled bool) ([]string, string, bool, error) {
	ctx := context.Background()
	tscc := tree.NewTreeCacheClient(world.DSName, w.Cache)
	scb := w.DS.VerifSchemaClientBound()
	if !scheduled {
		// free running: a bound schema client with a COLD index (a datastore right after its start) whose schema lookups take
		// a while, so that validators that load the same leaf on demand meet each other's lookup in flight. Runtime monitoring
		// (the interleaving is the Go scheduler's), like the rest of the free-running third.
		ss := &slowSchema{Client: w.SchemaC, slow: !sequential}
		scb = schemaClient.NewSchemaClientBound(w.SI.Cfg.GetSchema(), ss)
		defer func() {
			if ss.overlapped.Load() > 0 {
				rc.Probe("free-schema-lookups-overlapped")
			}
		}()
	}
	tc := tree.NewTreeContext(tscc, scb, world.DSName)
	if err := tscc.RefreshCaches(ctx); err != nil {
		return nil, "", true, err
	}
	root, err := tree.NewTreeRoot(ctx, tc)
	if err != nil {
		return nil, "", true, err
	}
	flagNew := tree.NewUpdateInsertFlags()
	flagNew.SetNewFlag()
	for _, is := range tx.Intents {
		if is.Delete {
			continue
		}
		tc.SetActualOwner(is.Name)
		var upds tree.UpdateSlice
		cl := Closure(w.SI, is.Leaves)
		keys := make([]string, 0, len(cl))
		for k := range cl {
			keys = append(keys, k)
		}
		sort.Strings(keys)
		for _, k := range keys {
			l := cl[k]
			b, err := proto.Marshal(MkTV(l.Node, l.Lex, "typed"))
			if err != nil {
				return nil, "", true, err
			}
			upds = append(upds, cache.NewUpdate(l.Path.CacheSlice(), b, is.Prio, is.Name, 0))
		}
		if err := root.AddCacheUpdatesRecursive(ctx, upds, flagNew); err != nil {
			return nil, "", true, err
		}
	}
	root.FinishInsertionPhase(ctx)
	vcfg := &config.Validation{DisableConcurrency: sequential}
	var res []string
	collect := func() {
		vr := root.Validate(ctx, vcfg)
		for _, e := range vr.ErrorsStr() {
			res = append(res, "E "+reHex.ReplaceAllString(e, "0x?"))
		}
		for _, e := range vr.WarningsStr() {
			res = append(res, "W "+reHex.ReplaceAllString(e, "0x?"))
		}
		// "the data loaded during validation": every value the tree holds afterwards, with the kind of schema node its
		// entry was built with (a lazily loaded leaf is the same leaf under every schedule)
		for _, lv := range root.GetHighestPrecedence(false) {
			kind := "no-schema"
			if sch := lv.GetEntry().GetSchema(); sch != nil {
				switch {
				case sch.GetField() != nil:
					kind = "leaf"
				case sch.GetLeaflist() != nil:
					kind = "leaf-list"
				case sch.GetContainer() != nil:
					kind = "container"
				}
			}
			v, _ := lv.Update.Value()
			res = append(res, fmt.Sprintf("T %s %s %s %s", strings.Join(lv.GetEntry().Path(), "/"), kind, lv.Owner(), v.String()))
		}
		sort.Strings(res)
	}
	if !scheduled {
		collect()
		return res, "", true, nil
	}
	sched := sim.NewSched(rc, time.Millisecond)
	sched.Fair = func() bool { return true }
	inValidate := false
	loads, defaults := 0, 0
	var hookMu sync.Mutex // freshly spawned validation goroutines reach the hook in parallel, before they park
	tree.VerifYield = func(p string) {
		hookMu.Lock()
		switch p {
		case "tree.validate.begin":
			inValidate = true
			sched.Enable()
		case "tree.validate.end":
			inValidate = false
			hookMu.Unlock()
			sched.Drain()
			return
		}
		if inValidate {
			if strings.HasPrefix(p, "tree.tryload:") {
				loads++
			} else if strings.HasPrefix(p, "tree.trydefault:") {
				defaults++
			}
		}
		hookMu.Unlock()
		sched.Yield(p)
	}
	defer func() { tree.VerifYield = nil }()
	done := make(chan struct{})
	sched.Go("validator", func() {
		defer close(done)
		collect()
	})
	ok := sched.Run(20000)
	sched.Drain()
	<-done
	if loads > 0 {
		rc.Probe("lazy-load-during-validate")
	}
	if loads > 1 {
		rc.Probe("several-lazy-loads-during-validate")
	}
	if defaults > 0 {
		rc.Probe("default-load-during-validate")
	}
	h := sha1.New()
	for _, l := range sched.Trace {
		h.Write([]byte(l))
		h.Write([]byte{0})
	}
	rc.Count("scheduled-partial-tree-validations")
	return res, hex.EncodeToString(h.Sum(nil))[:12], ok, nil
}

// runC17Scheduled is arm A: a history over the lazy profile (validators of different branches read the same running values
// and defaults, which have to be loaded into the tree on demand); every transaction is validated sequentially (reference) and
// then several times concurrently under different seeded schedules of the validation goroutines.
func runC17Scheduled(rc *sim.RunCtx) {
	t := rc.T
	rc.Probe("mode-scheduled")
	si, err := world.LoadSchema()
	if err != nil {
		rc.HarnessErr("schema: %v", err)
		return
	}
	wc, err := world.New(rc, world.Opts{DisableConcurrency: false})
	if err != nil {
		rc.HarnessErr("world: %v", err)
		return
	}
	defer wc.Close()
	ws, err := world.New(rc, world.Opts{DisableConcurrency: true})
	if err != nil {
		rc.HarnessErr("world: %v", err)
		return
	}
	defer ws.Close()
	profile := []string{"lazy", "lazy", "constraints"}[t.Choose(3)]
	cfg := SwarmCfg(t, profile, map[string]bool{"create": true, "change": true, "grow": true, "shrink": true, "delete": true, "resubmit": true})
	cfg.FormW = []int{4, 1, 0, 0}
	cfg.InvalidPct = []int{0, 15}[t.Choose(2)]
	g := NewGen(t, si, cfg)
	m := NewModel(si)
	// running values the validators need: each present with probability 3/4
	E, P := world.E, world.P
	cands := []*MLeaf{NewMLeaf(si, P(E("cc"), E("lim")), "50"), NewMLeaf(si, P(E("sys"), E("hostname")), "h9"),
		NewMLeaf(si, P(E("k1", "name", "a"), E("val")), "v1"), NewMLeaf(si, P(E("k1", "name", "c"), E("val")), "v1"),
		NewMLeaf(si, P(E("cc"), E("e", "name", "e1"), E("v")), "20"), NewMLeaf(si, P(E("cons"), E("lo")), "1"), NewMLeaf(si, P(E("cc"), E("kn")), "a")}
	var seed []*MLeaf
	for _, c := range cands {
		if t.Bool(3, 4) {
			seed = append(seed, c)
		}
	}
	var ls []*world.Leaf
	for _, l := range Closure(si, seed) {
		ls = append(ls, &world.Leaf{Path: l.Path, Abs: l.Abs, TV: MkTV(l.Node, l.Lex, "typed")})
	}
	sort.Slice(ls, func(i, j int) bool { return ls[i].Path.String() < ls[j].Path.String() })
	wc.SeedRunning(ls)
	ws.SeedRunning(ls)
	for _, l := range ls {
		rc.Scenario("running %s = %s", l.Path, l.Abs)
	}
	rc.Probe("lazy-load-candidates")
	n := 1 + t.Choose(4)
	if rc.Tier == "thorough" {
		n = 1 + t.Choose(8)
	}
	reps := 2
	for step := 0; step < n; step++ {
		time.Sleep(time.Second)
		rc.AddSim(1)
		tx := g.GenTx(m)
		if tx == nil {
			continue
		}
		rc.Step()
		rc.Scenario("%d: %s", step, tx.Render())
		// leg 1: partial tree (no running loaded): validators load running values and defaults on demand
		pref, _, _, perr := partialTreeValidate(rc, wc, tx, true, false)
		if perr != nil {
			rc.HarnessErr("partial tree: %v", perr)
			return
		}
		for r := 0; r < reps; r++ {
			pgot, schedHash, ok, perr := partialTreeValidate(rc, wc, tx, false, true)
			if perr != nil {
				rc.HarnessErr("partial tree: %v", perr)
				return
			}
			if !ok {
				rc.Report(sim.Item{Prop: "C17", Clause: "C17.validation-does-not-finish", Step: step, Fields: map[string]string{"edits": renderEdits(tx), "mode": "partial-tree"}, Detail: "validation goroutines did not finish within 20000 scheduling decisions"})
				return
			}
			rc.SigAdd(schedHash)
			if strings.Join(pgot, "\n") != strings.Join(pref, "\n") {
				a, b := diffSets(pref, pgot)
				rc.Report(sim.Item{Prop: "C17", Clause: "C17.verdict-differs", Step: step, Fields: map[string]string{"repetition": fmt.Sprint(r), "edits": renderEdits(tx), "mode": "partial-tree"},
					Detail: fmt.Sprintf("tree without running loaded: sequential validation %v; concurrent validation under the seeded schedule %s (repetition %d): only sequential: %v; only concurrent: %v", pref, schedHash, r, a, b)})
				return
			}
		}
		// leg 2: the transaction pipeline (running loaded up front) as dry runs
		dry := *tx
		dry.DryRun = true
		dry.ID = tx.ID + "-seq"
		ref := ExecTx(rc, ws, &dry, 5*time.Second)
		refMsgs := normMsgs(ref.IntentErrors)
		refErr := ref.Err != nil
		for r := 0; r < reps; r++ {
			d := *tx
			d.DryRun = true
			d.ID = fmt.Sprintf("%s-sch%d", tx.ID, r)
			got, schedHash, ok := scheduledDryRun(rc, wc, &d)
			if !ok {
				rc.Report(sim.Item{Prop: "C17", Clause: "C17.validation-does-not-finish", Step: step, Fields: map[string]string{"edits": renderEdits(tx)}, Detail: "validation goroutines did not finish within 20000 scheduling decisions"})
				return
			}
			rc.SigAdd(schedHash)
			gm := normMsgs(got.IntentErrors)
			if (got.Err != nil) != refErr || strings.Join(gm, "\n") != strings.Join(refMsgs, "\n") {
				a, b := diffSets(refMsgs, gm)
				rc.Report(sim.Item{Prop: "C17", Clause: "C17.verdict-differs", Step: step, Fields: map[string]string{"repetition": fmt.Sprint(r), "edits": renderEdits(tx), "mode": "scheduled"},
					Detail: fmt.Sprintf("sequential validation: err=%t %v; concurrent validation under the seeded schedule %s (repetition %d): err=%t; only sequential: %v; only concurrent: %v", refErr, refMsgs, schedHash, r, got.Err != nil, a, b)})
				return
			}
		}
		if len(refMsgs) > 0 {
			rc.Probe("invalid-step")
		}
		rc.NonTrivial()
		rc.SigAdd(fmt.Sprintf("%s|%d", renderEdits(tx), len(refMsgs)))
		if !refErr && len(refMsgs) == 0 {
			r1 := ExecTx(rc, ws, tx, 5*time.Second)
			t2 := *tx
			r2 := ExecTx(rc, wc, &t2, 5*time.Second)
			ws.NoteTimer(30 * time.Second)
			wc.NoteTimer(30 * time.Second)
			if r1.Accepted() != r2.Accepted() {
				rc.Report(sim.Item{Prop: "C17", Clause: "C17.verdict-differs", Step: step, Fields: map[string]string{"repetition": "apply", "edits": renderEdits(tx), "mode": "free"}, Detail: fmt.Sprintf("sequential accepted=%t, concurrent accepted=%t", r1.Accepted(), r2.Accepted())})
				return
			}
			if r1.Accepted() {
				Confirm(rc, ws, tx.ID)
				Confirm(rc, wc, tx.ID)
				m.Accept(tx)
			}
		}
	}
}

func runC17Free(rc *sim.RunCtx) {
	t := rc.T
	si, err := world.LoadSchema()
	if err != nil {
		rc.HarnessErr("schema: %v", err)
		return
	}
	wc, err := world.New(rc, world.Opts{DisableConcurrency: false})
	if err != nil {
		rc.HarnessErr("world: %v", err)
		return
	}
	defer wc.Close()
	ws, err := world.New(rc, world.Opts{DisableConcurrency: true})
	if err != nil {
		rc.HarnessErr("world: %v", err)
		return
	}
	defer ws.Close()
	profile := []string{"constraints", "lazy"}[t.Choose(2)]
	cfg := SwarmCfg(t, profile, map[string]bool{"create": true, "change": true, "grow": true, "shrink": true, "delete": true, "reprio": true, "resubmit": true})
	cfg.FormW = []int{4, 1, 0, 0}
	cfg.InvalidPct = []int{5, 15, 30}[t.Choose(3)]
	g := NewGen(t, si, cfg)
	m := NewModel(si)
	// running values that validators have to load lazily (leafref targets, must operands)
	seed := []*MLeaf{NewMLeaf(si, world.P(world.E("k1", "name", "c"), world.E("val")), "v1"), NewMLeaf(si, world.P(world.E("sys"), world.E("hostname")), "h9"),
		NewMLeaf(si, world.P(world.E("cc"), world.E("kn")), "a"), NewMLeaf(si, world.P(world.E("cc"), world.E("lim")), "50"), NewMLeaf(si, world.P(world.E("k1", "name", "a"), world.E("val")), "v1")}
	if t.Bool(3, 4) {
		var ls []*world.Leaf
		for _, l := range Closure(si, seed) {
			ls = append(ls, &world.Leaf{Path: l.Path, Abs: l.Abs, TV: MkTV(l.Node, l.Lex, "typed")})
		}
		sort.Slice(ls, func(i, j int) bool { return ls[i].Path.String() < ls[j].Path.String() })
		wc.SeedRunning(ls)
		ws.SeedRunning(ls)
		rc.Probe("lazy-load-candidates")
	}
	n := 2 + t.Choose(7)
	if rc.Tier == "thorough" {
		n = 2 + t.Choose(14)
	}
	reps := 3
	for step := 0; step < n; step++ {
		time.Sleep(time.Second)
		rc.AddSim(1)
		tx := g.GenTx(m)
		if tx == nil {
			continue
		}
		rc.Step()
		rc.Scenario("%d: %s", step, tx.Render())
		// trees without the running store (validators load on demand), goroutines running free: meant for the race detector build
		if pref, _, _, perr := partialTreeValidate(rc, wc, tx, true, false); perr == nil {
			for r := 0; r < 2; r++ {
				pgot, _, _, perr := partialTreeValidate(rc, wc, tx, false, false)
				if perr != nil {
					break
				}
				rc.Count("free-partial-tree-validations")
				if strings.Join(pgot, "\n") != strings.Join(pref, "\n") {
					a, b := diffSets(pref, pgot)
					rc.Report(sim.Item{Prop: "C17", Clause: "C17.verdict-differs", Step: step, Fields: map[string]string{"repetition": fmt.Sprint(r), "edits": renderEdits(tx), "mode": "partial-tree-free"},
						Detail: fmt.Sprintf("tree without running loaded: sequential validation %v; concurrent validation (free running, repetition %d): only sequential: %v; only concurrent: %v", pref, r, a, b)})
					return
				}
			}
		}
		// dry runs: sequential reference, then repeated concurrent runs
		dry := *tx
		dry.DryRun = true
		dry.ID = tx.ID + "-seq"
		ref := ExecTx(rc, ws, &dry, 5*time.Second)
		refMsgs := normMsgs(ref.IntentErrors)
		refErr := ref.Err != nil
		for r := 0; r < reps; r++ {
			d := *tx
			d.DryRun = true
			d.ID = fmt.Sprintf("%s-con%d", tx.ID, r)
			got := ExecTx(rc, wc, &d, 5*time.Second)
			gm := normMsgs(got.IntentErrors)
			if (got.Err != nil) != refErr || strings.Join(gm, "\n") != strings.Join(refMsgs, "\n") {
				a, b := diffSets(refMsgs, gm)
				rc.Report(sim.Item{Prop: "C17", Clause: "C17.verdict-differs", Step: step, Fields: map[string]string{"repetition": fmt.Sprint(r), "edits": renderEdits(tx)},
					Detail: fmt.Sprintf("sequential validation: err=%t %v; concurrent validation (repetition %d): err=%t; only sequential: %v; only concurrent: %v", refErr, refMsgs, r, got.Err != nil, a, b)})
				return
			}
		}
		if len(refMsgs) > 0 {
			rc.Probe("invalid-step")
			rc.NonTrivial()
		}
		rc.SigAdd(fmt.Sprintf("%s|%d", renderEdits(tx), len(refMsgs)))
		// apply for real to both worlds if valid
		if !refErr && len(refMsgs) == 0 {
			r1 := ExecTx(rc, ws, tx, 5*time.Second)
			t2 := *tx
			r2 := ExecTx(rc, wc, &t2, 5*time.Second)
			ws.NoteTimer(30 * time.Second)
			wc.NoteTimer(30 * time.Second)
			if r1.Accepted() != r2.Accepted() {
				rc.Report(sim.Item{Prop: "C17", Clause: "C17.verdict-differs", Step: step, Fields: map[string]string{"repetition": "apply", "edits": renderEdits(tx)}, Detail: fmt.Sprintf("sequential accepted=%t, concurrent accepted=%t", r1.Accepted(), r2.Accepted())})
				return
			}
			if r1.Accepted() {
				Confirm(rc, ws, tx.ID)
				Confirm(rc, wc, tx.ID)
				m.Accept(tx)
			}
		}
	}
}

func init() {
	Register(&sim.Check{
		ID: "C17", Level: "exploration", Run: runC17,
		Rule: "two thirds of the runs are arm A: every goroutine of RootEntry.Validate parks at yield points compiled into pkg/tree (start of a validation goroutine, lazy load of a running value or default, child creation, value insertion) and is released one at a time by the seeded scheduler; histories over the lazy profile (validators of different branches read the same running values and defaults through leafrefs with current() predicates, relative leafrefs and must statements) and the constraints profile; per transaction the sequential verdict is the reference for 2 scheduled concurrent validations of a tree built WITHOUT the running store (validators load on demand) and for 2 scheduled dry runs through the transaction pipeline. One third lets the goroutines run free (differential, incl. the partial trees). The thorough tier rebuilds the simulator with the Go race detector and reports any DATA RACE whose accesses are not both in harness code (arm B: runtime monitoring of uncontrolled schedules, inputs replay exactly, interleavings do not). Non-trivial = a validated step; distinct = signature incl. schedule hash.",
		Real: realCore, Stub: stubCore,
		Assume:           []string{"arm A decides verdict determinism over seeded schedules at the granularity of the pkg/tree yield points; the absence of unsynchronised accesses is decided only by the race detector on schedules the simulator does not control (thorough tier)"},
		NonDeterministic: true, CrashIsViolation: true, HangIsViolation: true,
		RequiredProbes: []string{"invalid-step", "lazy-load-candidates", "mode-scheduled", "mode-free-running", "yield-tree.validate", "lazy-load-during-validate"},
		QuickSeconds:   30, ThoroughSeconds: 420,
	})
}
