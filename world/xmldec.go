package world

import (
	"fmt"
	"sort"
	"strings"

	"github.com/beevik/etree"
)

const ncBase = "urn:ietf:params:xml:ns:netconf:base:1.0"

// XMLIssues collects clause-level observations about one edit-config document (C10).
type XMLIssues struct {
	Items []string // "clause: detail"
	// Deleted lists the subtrees the document deletes explicitly (delete / remove / replace operations)
	Deleted []Path
	// KeyDelete: some key leaf element carries an explicit delete/remove operation
	KeyDelete bool
}

func (x *XMLIssues) add(clause, format string, a ...any) {
	x.Items = append(x.Items, clause+": "+fmt.Sprintf(format, a...))
}

type xmlCtx struct {
	si      *SchemaInfo
	ns      bool   // document is expected to carry namespaces
	opNS    bool   // operation attribute expected with nc prefix
	delName string // delete | remove
	iss     *XMLIssues
}

// resolveNS returns the namespace an element resolves to under XML scoping.
func resolveNS(e *etree.Element) string {
	for cur := e; cur != nil; cur = cur.Parent() {
		for _, a := range cur.Attr {
			if e.Space == "" && a.Space == "" && a.Key == "xmlns" {
				return a.Value
			}
			if e.Space != "" && a.Space == "xmlns" && a.Key == e.Space {
				return a.Value
			}
		}
	}
	return ""
}

func (c *xmlCtx) opOf(e *etree.Element) string {
	for _, a := range e.Attr {
		if a.Key != "operation" {
			continue
		}
		if a.Space == "" {
			if c.opNS {
				c.iss.add("C10.xml-operation-form", "element %s carries operation without the nc namespace although operation-with-namespace is configured", e.Tag)
			}
			return a.Value
		}
		// prefixed: the prefix must resolve to the NETCONF base namespace
		ok := false
		for cur := e; cur != nil && !ok; cur = cur.Parent() {
			for _, b := range cur.Attr {
				if b.Space == "xmlns" && b.Key == a.Space && b.Value == ncBase {
					ok = true
				}
			}
		}
		if !ok {
			c.iss.add("C10.xml-operation-form", "operation attribute prefix %q of %s does not resolve to the NETCONF base namespace", a.Space, e.Tag)
		}
		if !c.opNS {
			c.iss.add("C10.xml-operation-form", "element %s carries a namespaced operation although operation-with-namespace is off", e.Tag)
		}
		return a.Value
	}
	return ""
}

// ApplyXML applies an edit-config document (default operation merge) to a copy of the state.
func (si *SchemaInfo) ApplyXML(state DevState, doc string, ns, opNS, remove bool) (DevState, *XMLIssues) {
	iss := &XMLIssues{}
	out := state.Clone()
	if strings.TrimSpace(doc) == "" {
		return out, iss
	}
	d := etree.NewDocument()
	if err := d.ReadFromString(doc); err != nil {
		iss.add("C10.xml-malformed", "%v", err)
		return out, iss
	}
	c := &xmlCtx{si: si, ns: ns, opNS: opNS, delName: "delete", iss: iss}
	if remove {
		c.delName = "remove"
	}
	c.applyChildren(out, Path{}, si.Nodes[""], d.ChildElements(), "merge")
	return out, iss
}

func (c *xmlCtx) applyChildren(st DevState, p Path, n *Node, elems []*etree.Element, inherited string) {
	// leaf-lists: group sibling elements
	llDone := map[string]bool{}
	for _, e := range elems {
		if e.Tag == "" {
			c.iss.add("C10.xml-empty-name", "element without a name below %s", p)
			continue
		}
		cn := c.si.Nodes[joinKeyless(n.Keyless, e.Tag)]
		if cn == nil {
			c.iss.add("C10.xml-unknown-element", "%s below %s", e.Tag, p)
			continue
		}
		if c.ns {
			if got := resolveNS(e); got != cn.Namespace {
				mark := ""
				if o := e.SelectAttrValue("operation", ""); o == "delete" || o == "remove" {
					mark = " [delete-element]"
				} else {
					for _, a := range e.Attr {
						if a.Key == "operation" && (a.Value == "delete" || a.Value == "remove") {
							mark = " [delete-element]"
						}
					}
				}
				c.iss.add("C10.xml-namespace", "element %s below %s resolves to namespace %q, its schema node is in %q%s", e.Tag, p, got, cn.Namespace, mark)
			}
		}
		op := c.opOf(e)
		if op == "delete" || op == "remove" {
			if op != c.delName {
				c.iss.add("C10.xml-operation-form", "deletion of %s uses operation %q, configured is %q", e.Tag, op, c.delName)
			}
		}
		eff := inherited
		if op != "" {
			eff = op
		}
		switch cn.Kind {
		case KContainer:
			cp := p.Child(e.Tag)
			switch eff {
			case "delete", "remove":
				st.Delete(cp)
				c.iss.Deleted = append(c.iss.Deleted, cp.Clone())
				continue
			case "replace":
				st.Delete(cp)
				c.iss.Deleted = append(c.iss.Deleted, cp.Clone())
				eff = "merge"
			}
			kids := e.ChildElements()
			if cn.Presence {
				// merge semantics (RFC 6241 7.2): the node the element identifies is merged into the configuration, i.e. created
				// if it does not exist - also when its children only carry delete operations
				st.Set(&Leaf{Path: cp, Abs: "empty"})
			}
			c.applyChildren(st, cp, cn, kids, eff)
		case KList:
			cp := p.Child(e.Tag)
			keys := map[string]string{}
			kids := e.ChildElements()
			// keys first, in key-statement order
			for i, k := range cn.Keys {
				if i >= len(kids) || kids[i].Tag != k {
					c.iss.add("C10.xml-keys-first", "list entry %s below %s: child #%d is %q, expected key %q (keys must come first in key-statement order)", e.Tag, p, i, tagAt(kids, i), k)
				}
			}
			for _, k := range cn.Keys {
				ke := e.SelectElement(k)
				if ke == nil {
					c.iss.add("C10.xml-missing-key", "list entry %s below %s lacks key %s", e.Tag, p, k)
					continue
				}
				keys[k] = ke.Text()
			}
			if len(keys) != len(cn.Keys) {
				continue
			}
			cp[len(cp)-1].Keys = keys
			switch eff {
			case "delete", "remove":
				st.Delete(cp)
				c.iss.Deleted = append(c.iss.Deleted, cp.Clone())
				continue
			case "replace":
				st.Delete(cp)
				c.iss.Deleted = append(c.iss.Deleted, cp.Clone())
				eff = "merge"
			}
			c.applyChildren(st, cp, cn, kids, eff)
		case KLeaf:
			cp := p.Child(e.Tag)
			if cn.IsKeyLeaf() && (op == "delete" || op == "remove") {
				c.iss.KeyDelete = true
			}
			if eff == "delete" || eff == "remove" {
				if cn.IsKeyLeaf() && op == "" {
					// key leaf inside an entry that is being addressed; not a deletion of its own
					continue
				}
				st.Delete(cp)
				continue
			}
			st.Set(&Leaf{Path: cp, Abs: AbsScalarFromString(cn.Type, e.Text())})
		case KLeafList:
			if llDone[e.Tag] {
				continue
			}
			llDone[e.Tag] = true
			cp := p.Child(e.Tag)
			var add, del []string
			for _, s := range elems {
				if s.Tag != e.Tag {
					continue
				}
				sop := c.opOf(s)
				if sop == "" {
					sop = inherited
				}
				v := AbsScalarFromString(cn.Type, s.Text())
				if sop == "delete" || sop == "remove" {
					del = append(del, v)
				} else {
					add = append(add, v)
				}
			}
			cur := map[string]bool{}
			if old, ok := st[cp.String()]; ok {
				for _, v := range splitLL(old.Abs) {
					cur[v] = true
				}
			}
			for _, v := range del {
				if s := strings.TrimSpace(v); s == "str:" || !cur[v] && len(del) == 1 && strings.HasSuffix(v, ":") {
					// an element without text and a delete operation addresses the whole leaf-list
					cur = map[string]bool{}
				}
				delete(cur, v)
			}
			for _, v := range add {
				cur[v] = true
			}
			if len(cur) == 0 {
				st.Delete(cp)
				continue
			}
			vals := make([]string, 0, len(cur))
			for v := range cur {
				vals = append(vals, v)
			}
			sort.Strings(vals)
			st.Set(&Leaf{Path: cp, Abs: "ll:[" + strings.Join(vals, "|") + "]"})
		}
	}
}

func tagAt(kids []*etree.Element, i int) string {
	if i < len(kids) {
		return kids[i].Tag
	}
	return "<none>"
}

func splitLL(abs string) []string {
	s := strings.TrimSuffix(strings.TrimPrefix(abs, "ll:["), "]")
	if s == "" {
		return nil
	}
	return strings.Split(s, "|")
}
