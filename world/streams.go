package world

import (
	"context"
	"crypto/sha1"
	"encoding/hex"
	"errors"
	"fmt"
	"sync"
	"time"

	"google.golang.org/grpc/metadata"
	"google.golang.org/protobuf/proto"
)

// StreamPlan describes how a fake gRPC server stream behaves.
type StreamPlan struct {
	FailAt      int           // Send index that fails (-1 never)
	FailErr     string        // error text
	CancelDelay time.Duration // context cancelled this long after the failure (<0: never)
	StallAt     int           // Send index that stalls (-1 never)
	StallFor    time.Duration // 0 = until the context ends
	SlowEvery   time.Duration // every Send takes this long
}

// FakeStream implements grpc.ServerStream plus a typed Send; handlers are called directly with it.
type FakeStream[T proto.Message] struct {
	Ctx    context.Context
	Cancel context.CancelFunc
	Plan   StreamPlan
	Sent   []T
	N      int
	Failed bool
	Yield  func(point string)
	Logf   func(string, ...any)
	Name   string
	mu     sync.Mutex
	// EndedAt is when the stream's context was cancelled (by the plan or by the client)
	EndedAt time.Time
	// FailedAt is when the first Send failed
	FailedAt time.Time
}

// End cancels the stream context and remembers when.
func (s *FakeStream[T]) End() {
	s.mu.Lock()
	if s.EndedAt.IsZero() {
		s.EndedAt = time.Now()
	}
	s.mu.Unlock()
	s.Cancel()
}

func NewFakeStream[T proto.Message](parent context.Context, name string, plan StreamPlan, logf func(string, ...any)) *FakeStream[T] {
	ctx, cancel := context.WithCancel(parent)
	return &FakeStream[T]{Ctx: ctx, Cancel: cancel, Plan: plan, Logf: logf, Name: name}
}

func (s *FakeStream[T]) Context() context.Context     { return s.Ctx }
func (s *FakeStream[T]) SetHeader(metadata.MD) error  { return nil }
func (s *FakeStream[T]) SendHeader(metadata.MD) error { return nil }
func (s *FakeStream[T]) SetTrailer(metadata.MD)       {}
func (s *FakeStream[T]) SendMsg(m any) error          { return nil }
func (s *FakeStream[T]) RecvMsg(m any) error          { return nil }

func (s *FakeStream[T]) Send(m T) error {
	if s.Yield != nil {
		// the digest of the message makes the name of a not yet known sender goroutine independent of arrival order
		b, _ := proto.MarshalOptions{Deterministic: true}.Marshal(m)
		h := sha1.Sum(b)
		s.Yield("send:" + s.Name + ":" + hex.EncodeToString(h[:4]))
	}
	s.mu.Lock()
	idx := s.N
	s.N++
	s.mu.Unlock()
	if err := s.Ctx.Err(); err != nil {
		s.log("send#%d refused: %v", idx, err)
		return fmt.Errorf("rpc error: code = Canceled desc = %w", err)
	}
	if s.Plan.SlowEvery > 0 {
		select {
		case <-s.Ctx.Done():
			return fmt.Errorf("rpc error: code = Canceled desc = %w", s.Ctx.Err())
		case <-time.After(s.Plan.SlowEvery):
		}
	}
	if s.Plan.StallAt >= 0 && idx == s.Plan.StallAt {
		s.log("send#%d stalls (%s)", idx, s.Plan.StallFor)
		if s.Plan.StallFor == 0 {
			<-s.Ctx.Done()
			return fmt.Errorf("rpc error: code = Canceled desc = %w", s.Ctx.Err())
		}
		select {
		case <-s.Ctx.Done():
			return fmt.Errorf("rpc error: code = Canceled desc = %w", s.Ctx.Err())
		case <-time.After(s.Plan.StallFor):
		}
	}
	if s.Plan.FailAt >= 0 && idx >= s.Plan.FailAt {
		s.mu.Lock()
		first := !s.Failed
		s.Failed = true
		if first {
			s.FailedAt = time.Now()
		}
		s.mu.Unlock()
		if first {
			s.log("send#%d fails: %s", idx, s.Plan.FailErr)
			if s.Plan.CancelDelay == 0 {
				s.End()
			} else if s.Plan.CancelDelay > 0 {
				d := s.Plan.CancelDelay
				go func() {
					select {
					case <-s.Ctx.Done():
					case <-time.After(d):
						s.End()
					}
				}()
			}
		}
		return errors.New(s.Plan.FailErr)
	}
	s.mu.Lock()
	s.Sent = append(s.Sent, m)
	s.mu.Unlock()
	s.log("send#%d ok", idx)
	return nil
}

func (s *FakeStream[T]) log(f string, a ...any) {
	if s.Logf != nil {
		s.Logf("STREAM %s %s", s.Name, fmt.Sprintf(f, a...))
	}
}
