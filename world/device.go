package world

import (
	"context"
	"errors"
	"fmt"
	"sort"
	"sync"

	"github.com/beevik/etree"
	sdcpb "github.com/sdcio/sdc-protos/sdcpb"

	"github.com/sdcio/data-server/pkg/config"
	"github.com/sdcio/data-server/pkg/datastore/target"
)

// Leaf is one leaf instance as some party sees it.
type Leaf struct {
	Path Path
	Abs  string            // abstract value (value.go)
	TV   *sdcpb.TypedValue // as delivered
}

// DevState is the abstract device configuration: canonical leaf path -> leaf.
type DevState map[string]*Leaf

func (s DevState) Clone() DevState {
	o := DevState{}
	for k, v := range s {
		o[k] = v
	}
	return o
}

func (s DevState) Keys() []string {
	ks := make([]string, 0, len(s))
	for k := range s {
		ks = append(ks, k)
	}
	sort.Strings(ks)
	return ks
}

// Delete removes everything at or below the (possibly key-wildcarded) path. Returns removed count.
func (s DevState) Delete(p Path) int {
	n := 0
	for k, l := range s {
		if l.Path.HasPrefix(p) {
			delete(s, k)
			n++
		}
	}
	return n
}

func (s DevState) Set(l *Leaf) { s[l.Path.String()] = l }

// WithImpliedPresence returns a copy in which every presence container that has a leaf below it carries its
// marker: on a device a presence container exists as soon as any of its descendants exists.
func (s DevState) WithImpliedPresence(si *SchemaInfo) DevState {
	o := s.Clone()
	for _, l := range s {
		for i := 1; i < len(l.Path); i++ {
			pp := l.Path[:i]
			if n := si.Node(pp); n != nil && n.Kind == KContainer && n.Presence {
				if _, ok := o[pp.String()]; !ok {
					o[pp.String()] = &Leaf{Path: pp.Clone(), Abs: "empty"}
				}
			}
		}
	}
	return o
}

// PersistPresence models the YANG rule that a presence container is a data node of its own: one that existed in the prior
// state (explicitly, or implicitly through a descendant) stays when its last descendant is removed, unless the change deleted the
// container or an ancestor explicitly. Devices differ on this; comparisons that use it take the reading under which re-stating or
// not re-stating an already existing presence container makes no difference.
func (s DevState) PersistPresence(si *SchemaInfo, prior DevState, deleted []Path) DevState {
	o := s.WithImpliedPresence(si)
	for k, l := range prior.WithImpliedPresence(si) {
		n := si.Node(l.Path)
		if n == nil || n.Kind != KContainer || !n.Presence {
			continue
		}
		if _, ok := o[k]; ok {
			continue
		}
		covered := false
		for _, d := range deleted {
			if l.Path.HasPrefix(d) {
				covered = true
				break
			}
		}
		if !covered {
			o[k] = &Leaf{Path: l.Path.Clone(), Abs: "empty"}
		}
	}
	return o
}

// Render gives a canonical text form (sorted) for logs and equality.
func (s DevState) Render() []string {
	out := make([]string, 0, len(s))
	for _, k := range s.Keys() {
		out = append(out, k+" = "+NormAbs(s[k].Abs))
	}
	return out
}

func (s DevState) Equal(o DevState) bool {
	if len(s) != len(o) {
		return false
	}
	for k, v := range s {
		ov, ok := o[k]
		if !ok || NormAbs(ov.Abs) != NormAbs(v.Abs) {
			return false
		}
	}
	return true
}

// FaultKind for device calls.
type DevFault int

const (
	DevOK          DevFault = iota
	DevReject               // error reply, nothing applied
	DevUnreachable          // transport error, nothing applied
	DevLostReply            // applied, but error returned
)

func (f DevFault) String() string {
	return [...]string{"ok", "dev-reject", "dev-unreachable", "dev-lost-reply"}[f]
}

// SetRecord is what the device saw in one Set.
type SetRecord struct {
	Seq     int
	Deletes []Path
	Updates []*Leaf
	Fault   DevFault
	Applied bool
	// Wire: "" for the direct device, "gnmi" / "netconf" when the record was decoded from a wire message of a real target
	Wire string
	// WireErr: the front end could not decode the message (the device refused it)
	WireErr string
	// other encodings of the same tree instance (filled when CaptureEncodings)
	JSON, JSONIETF         any
	JSONFull, JSONIETFFull any
	XML                    map[string]string // option combo -> document text (change view)
	XMLFull                map[string]string
	ProtoFull              []*Leaf
	EncErr                 map[string]string
}

func (r *SetRecord) Render() []string {
	var out []string
	ds := make([]string, 0, len(r.Deletes))
	for _, d := range r.Deletes {
		ds = append(ds, "DEL "+d.String())
	}
	sort.Strings(ds)
	us := make([]string, 0, len(r.Updates))
	for _, u := range r.Updates {
		us = append(us, "UPD "+u.Path.String()+" = "+NormAbs(u.Abs))
	}
	sort.Strings(us)
	out = append(out, ds...)
	out = append(out, us...)
	return out
}

// Device is the direct stub device: a target.Target that interprets the proto view.
type Device struct {
	SI               *SchemaInfo
	State            DevState
	Sets             []*SetRecord
	CaptureEncodings bool
	// NextFault is consulted (and reset) on each Set.
	NextFault func(callIdx int) DevFault
	// Hook is called at the start of every Set (seam for the scheduler / crash injection).
	Hook func(callIdx int) error
	// SyncScript is run by Sync (C13); nil = block until ctx done.
	SyncFn func(ctx context.Context, cfg *config.Sync, ch chan *target.SyncUpdate)
	seq    *int
	logf   func(string, ...any)
	// mu serialises Set calls (free-running legs may reach the device from several goroutines)
	mu sync.Mutex
}

func NewDevice(si *SchemaInfo, logf func(string, ...any)) *Device {
	return &Device{SI: si, State: DevState{}, logf: logf}
}

var ErrDevReject = errors.New("device: rpc error: invalid configuration (injected)")
var ErrDevUnreachable = errors.New("device: transport is closing (injected)")
var ErrDevLostReply = errors.New("device: deadline exceeded waiting for reply (injected)")

func (d *Device) decodeUpdates(upds []*sdcpb.Update) ([]*Leaf, error) {
	out := make([]*Leaf, 0, len(upds))
	for _, u := range upds {
		p := FromSdcpb(u.GetPath())
		n := d.SI.Node(p)
		if n == nil {
			return nil, fmt.Errorf("device: update for unknown schema path %s", p)
		}
		out = append(out, &Leaf{Path: p, Abs: AbsTV(n, u.GetValue()), TV: u.GetValue()})
	}
	return out, nil
}

func (d *Device) Set(ctx context.Context, source target.TargetSource) (*sdcpb.SetDataResponse, error) {
	d.mu.Lock()
	defer d.mu.Unlock()
	idx := len(d.Sets)
	if d.Hook != nil {
		if err := d.Hook(idx); err != nil {
			return nil, err
		}
	}
	rec := &SetRecord{Seq: idx, EncErr: map[string]string{}}
	upds, err := source.ToProtoUpdates(ctx, true)
	if err != nil {
		return nil, fmt.Errorf("device: ToProtoUpdates: %w", err)
	}
	dels, err := source.ToProtoDeletes(ctx)
	if err != nil {
		return nil, fmt.Errorf("device: ToProtoDeletes: %w", err)
	}
	rec.Updates, err = d.decodeUpdates(upds)
	if err != nil {
		return nil, err
	}
	for _, del := range dels {
		rec.Deletes = append(rec.Deletes, FromSdcpb(del))
	}
	if d.CaptureEncodings {
		d.capture(ctx, source, rec)
	}
	if d.NextFault != nil {
		rec.Fault = d.NextFault(idx)
	}
	d.Sets = append(d.Sets, rec)
	for _, l := range rec.Render() {
		d.logf("DEVICE set#%d %s", idx, l)
	}
	d.logf("DEVICE set#%d fault=%s", idx, rec.Fault)
	switch rec.Fault {
	case DevReject:
		return nil, ErrDevReject
	case DevUnreachable:
		return nil, ErrDevUnreachable
	}
	ApplyGnmi(d.State, rec.Deletes, rec.Updates)
	rec.Applied = true
	if rec.Fault == DevLostReply {
		return nil, ErrDevLostReply
	}
	return &sdcpb.SetDataResponse{}, nil
}

// ApplyGnmi applies gNMI Set semantics: deletes first, then updates.
func ApplyGnmi(s DevState, dels []Path, upds []*Leaf) {
	for _, del := range dels {
		s.Delete(del)
	}
	for _, u := range upds {
		s.Set(u)
	}
}

var xmlCombos = []struct {
	Name             string
	NS, OpNS, Remove bool
}{
	{"ns0-op0-del", false, false, false}, {"ns0-op0-rem", false, false, true},
	{"ns0-op1-del", false, true, false}, {"ns0-op1-rem", false, true, true},
	{"ns1-op0-del", true, false, false}, {"ns1-op0-rem", true, false, true},
	{"ns1-op1-del", true, true, false}, {"ns1-op1-rem", true, true, true},
}

func (d *Device) capture(ctx context.Context, source target.TargetSource, rec *SetRecord) {
	var err error
	if rec.JSON, err = source.ToJson(true); err != nil {
		rec.EncErr["json"] = err.Error()
	}
	if rec.JSONIETF, err = source.ToJsonIETF(true); err != nil {
		rec.EncErr["json_ietf"] = err.Error()
	}
	if rec.JSONFull, err = source.ToJson(false); err != nil {
		rec.EncErr["json_full"] = err.Error()
	}
	if rec.JSONIETFFull, err = source.ToJsonIETF(false); err != nil {
		rec.EncErr["json_ietf_full"] = err.Error()
	}
	if full, err := source.ToProtoUpdates(ctx, false); err != nil {
		rec.EncErr["proto_full"] = err.Error()
	} else if rec.ProtoFull, err = d.decodeUpdates(full); err != nil {
		rec.EncErr["proto_full"] = err.Error()
	}
	rec.XML, rec.XMLFull = map[string]string{}, map[string]string{}
	for _, c := range xmlCombos {
		for _, onlyNew := range []bool{true, false} {
			var doc *etree.Document
			doc, err = source.ToXML(onlyNew, c.NS, c.OpNS, c.Remove)
			if err != nil {
				rec.EncErr["xml-"+c.Name+fmt.Sprint(onlyNew)] = err.Error()
				continue
			}
			doc.Indent(1)
			s, err := doc.WriteToString()
			if err != nil {
				rec.EncErr["xml-"+c.Name+fmt.Sprint(onlyNew)] = err.Error()
				continue
			}
			if onlyNew {
				rec.XML[c.Name] = s
			} else {
				rec.XMLFull[c.Name] = s
			}
		}
	}
}

func (d *Device) Get(ctx context.Context, req *sdcpb.GetDataRequest) (*sdcpb.GetDataResponse, error) {
	return &sdcpb.GetDataResponse{}, nil
}

func (d *Device) Sync(ctx context.Context, cfg *config.Sync, ch chan *target.SyncUpdate) {
	if d.SyncFn != nil {
		d.SyncFn(ctx, cfg, ch)
		return
	}
	<-ctx.Done()
}

func (d *Device) Status() *target.TargetStatus {
	return target.NewTargetStatus(target.TargetStatusConnected)
}

func (d *Device) Close() error { return nil }

var _ target.Target = (*Device)(nil)
