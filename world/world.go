package world

import (
	"context"
	"fmt"
	"io"
	"net"
	"os"
	"sort"
	"strings"
	"time"

	"github.com/openconfig/gnmi/proto/gnmi"
	cconfig "github.com/sdcio/cache/pkg/config"
	"github.com/sdcio/cache/proto/cachepb"
	sdcpb "github.com/sdcio/sdc-protos/sdcpb"
	log "github.com/sirupsen/logrus"
	"google.golang.org/grpc/peer"

	"github.com/sdcio/data-server/pkg/cache"
	"github.com/sdcio/data-server/pkg/config"
	"github.com/sdcio/data-server/pkg/datastore"
	schemaClient "github.com/sdcio/data-server/pkg/datastore/clients/schema"
	"github.com/sdcio/data-server/pkg/datastore/target"
	dschema "github.com/sdcio/data-server/pkg/schema"
	"github.com/sdcio/data-server/pkg/server"

	"verif/sim"
)

func init() {
	log.SetOutput(io.Discard)
	log.SetLevel(log.PanicLevel)
}

const DSName = "ds1"

type Opts struct {
	DisableConcurrency bool
	Disabled           config.Validators
	Sync               *config.Sync
	TxTimeout          time.Duration
	WrapCache          func(cache.Client) cache.Client
	WrapSchema         func(dschema.Client) dschema.Client
	CaptureEncodings   bool
	// DevKind selects the device front end: "" / "direct" (a target.Target reading the proto view of the tree), or
	// "gnmi-proto" / "gnmi-json" / "gnmi-json_ietf": the REAL gnmiTarget around an in-process gnmi client that decodes the
	// wire requests (world.GNMIFront). With a wire front end a shadow direct device sees the same tree first (Shadow).
	DevKind string
}

// World is one simulated deployment: real datastore + real cache + real schema store + stub device.
type World struct {
	RC       *sim.RunCtx
	SI       *SchemaInfo
	Dir      string
	RawCache cache.Client
	Cache    cache.Client
	SchemaC  dschema.Client
	Dev      *Device
	// Shadow: with a wire front end, a direct device that is handed the same tree right before the real target
	// (its state is what the proto view of every Set amounts to); nil for the direct kind
	Shadow   *Device
	Cfg      *config.DatastoreConfig
	DS       *datastore.Datastore
	Srv      *server.Server
	Ctx      context.Context
	Cancel   context.CancelFunc
	Opts     Opts
	Gen      int // generation (restarts)
	MaxTimer time.Duration
	NoFlush  bool // outside a bubble: never sleep real time in Close
	start    time.Time
}

var dirCounter int

func scratchRoot() string {
	if d := os.Getenv("VSIM_SCRATCH"); d != "" {
		return d
	}
	return "/dev/shm"
}

func New(rc *sim.RunCtx, o Opts) (*World, error) {
	si, err := LoadSchema()
	if err != nil {
		return nil, fmt.Errorf("schema: %w", err)
	}
	dirCounter++
	dir, err := os.MkdirTemp(scratchRoot(), fmt.Sprintf("vsim-%d-", os.Getpid()))
	if err != nil {
		return nil, err
	}
	w := &World{RC: rc, SI: si, Dir: dir, Opts: o, start: time.Now()}
	w.Dev = NewDevice(si, rc.Logf)
	w.Dev.CaptureEncodings = o.CaptureEncodings
	if err := w.boot(); err != nil {
		os.RemoveAll(dir)
		return nil, err
	}
	return w, nil
}

// boot opens the cache on w.Dir and builds datastore + server (used for start and restart).
func (w *World) boot() error {
	raw, err := cache.NewLocalCache(&cconfig.CacheConfig{MaxCaches: -1, StoreType: "badgerdb", Dir: w.Dir})
	if err != nil {
		return fmt.Errorf("cache: %w", err)
	}
	w.RawCache = raw
	w.Cache = raw
	if w.Opts.WrapCache != nil {
		w.Cache = w.Opts.WrapCache(raw)
	}
	w.SchemaC = w.SI.Client
	if w.Opts.WrapSchema != nil {
		w.SchemaC = w.Opts.WrapSchema(w.SI.Client)
	}
	w.Cfg = &config.DatastoreConfig{
		Name:   DSName,
		Schema: w.SI.Cfg,
		SBI:    &config.SBI{Type: "noop"},
		Sync:   w.Opts.Sync,
		Validation: &config.Validation{
			DisabledValidators: w.Opts.Disabled,
			DisableConcurrency: w.Opts.DisableConcurrency,
		},
	}
	w.Ctx, w.Cancel = context.WithCancel(PeerCtx(context.Background(), "10.0.0.1:1000"))
	var tgt target.Target = w.Dev
	if strings.HasPrefix(w.Opts.DevKind, "gnmi-") {
		enc := strings.TrimPrefix(w.Opts.DevKind, "gnmi-")
		encs := []gnmi.Encoding{gnmi.Encoding_JSON_IETF, gnmi.Encoding_JSON, gnmi.Encoding_PROTO}
		front := &GNMIFront{Dev: w.Dev, Encodings: encs}
		w.Cfg.SBI = &config.SBI{Type: "gnmi", GnmiOptions: &config.SBIGnmiOptions{Encoding: enc}}
		real := target.VerifNewGNMITarget(DSName, w.Cfg.SBI, front, encs...)
		if w.Shadow == nil {
			w.Shadow = NewDevice(w.SI, func(string, ...any) {})
			w.Shadow.State = w.Dev.State.Clone()
		}
		tgt = &teeTarget{real: real, shadow: w.Shadow, dev: w.Dev}
	}
	if strings.HasPrefix(w.Opts.DevKind, "netconf") {
		commitDS, ns, opns, rem := "candidate", true, true, false
		if w.Opts.DevKind == "netconf-running" {
			commitDS, ns, opns, rem = "running", false, false, true
		}
		w.Cfg.SBI = &config.SBI{Type: "netconf", NetconfOptions: &config.SBINetconfOptions{CommitDatastore: commitDS, IncludeNS: ns, OperationWithNamespace: opns, UseOperationRemove: rem}}
		if w.Shadow == nil {
			w.Shadow = NewDevice(w.SI, func(string, ...any) {})
			w.Shadow.State = w.Dev.State.Clone()
		}
		front := NewNCFront(w.Dev, w.Shadow, ns, opns, rem)
		scb := schemaClient.NewSchemaClientBound(w.Cfg.Schema.GetSchema(), w.SchemaC)
		real := target.VerifNewNCTarget(DSName, w.Cfg.SBI, scb, front.Drv)
		tgt = &teeTarget{real: real, shadow: w.Shadow, dev: w.Dev}
	}
	w.DS = datastore.VerifNew(w.Ctx, w.Cfg, w.SchemaC, w.Cache, tgt)
	txto := w.Opts.TxTimeout
	if txto == 0 {
		txto = 30 * time.Second
	}
	srv, err := server.New(w.Ctx, &config.Config{
		GRPCServer:                &config.GRPCServer{MaxRecvMsgSize: 4 << 20},
		DefaultTransactionTimeout: txto,
	})
	if err != nil {
		return fmt.Errorf("server: %w", err)
	}
	srv.VerifAddDatastore(w.DS)
	w.Srv = srv
	w.Gen++
	return nil
}

// Close flushes every armed timer (advancing the fake clock), cancels contexts, closes the cache, removes the directory.
func (w *World) Close() {
	if w.MaxTimer > 0 && !w.NoFlush {
		time.Sleep(w.MaxTimer + time.Second)
	}
	w.Cancel()
	if w.RawCache != nil {
		w.RawCache.Close()
	}
	os.RemoveAll(w.Dir)
}

// NoteTimer records the longest armed timeout so Close can flush it.
func (w *World) NoteTimer(d time.Duration) {
	if d > w.MaxTimer {
		w.MaxTimer = d
	}
}

// teeTarget hands every Set to a shadow direct device first (which only reads the proto view and records it) and then to
// the real target, whose wire request reaches the front end of the main device.
type teeTarget struct {
	real   target.Target
	shadow *Device
	dev    *Device // the main device: serves the scripted sync traffic
}

func (t *teeTarget) Set(ctx context.Context, source target.TargetSource) (*sdcpb.SetDataResponse, error) {
	if _, err := t.shadow.Set(ctx, source); err != nil {
		return nil, fmt.Errorf("shadow device: %w", err)
	}
	return t.real.Set(ctx, source)
}
func (t *teeTarget) Get(ctx context.Context, req *sdcpb.GetDataRequest) (*sdcpb.GetDataResponse, error) {
	return t.real.Get(ctx, req)
}
func (t *teeTarget) Sync(ctx context.Context, cfg *config.Sync, ch chan *target.SyncUpdate) {
	t.dev.Sync(ctx, cfg, ch)
}
func (t *teeTarget) Status() *target.TargetStatus {
	return target.NewTargetStatus(target.TargetStatusConnected)
}
func (t *teeTarget) Close() error { return nil }

func PeerCtx(ctx context.Context, addr string) context.Context {
	a, _ := net.ResolveTCPAddr("tcp", addr)
	return peer.NewContext(ctx, &peer.Peer{Addr: a})
}

// ---- store dumps (through the undecorated real cache client) ----

type StoreEntry struct {
	Path  Path
	Raw   []string
	Owner string
	Prio  int32
	TS    int64
	Abs   string
	TV    *sdcpb.TypedValue
}

func (e StoreEntry) Key() string {
	return fmt.Sprintf("%s|%s|%d|%s", e.Path.String(), e.Owner, e.Prio, NormAbs(e.Abs))
}

func (w *World) decodeEntry(u *cache.Update) (StoreEntry, error) {
	p, err := w.SI.FromCacheSlice(u.GetPath())
	if err != nil {
		return StoreEntry{Raw: u.GetPath(), Owner: u.Owner(), Prio: u.Priority(), TS: u.TS()}, err
	}
	tv, err := u.Value()
	if err != nil {
		return StoreEntry{Path: p, Raw: u.GetPath()}, err
	}
	return StoreEntry{Path: p, Raw: u.GetPath(), Owner: u.Owner(), Prio: u.Priority(), TS: u.TS(), TV: tv, Abs: AbsTV(w.SI.Node(p), tv)}, nil
}

// DumpIntended returns every entry of the intended store (all priorities, all owners, all timestamps).
func (w *World) DumpIntended() ([]StoreEntry, error) {
	ctx, cancel := context.WithCancel(context.Background())
	defer cancel()
	var paths [][]string
	for _, c := range w.SI.Nodes[""].Children {
		paths = append(paths, []string{c})
	}
	upds := w.RawCache.Read(ctx, DSName, &cache.Opts{Store: cachepb.Store_INTENDED, Priority: -1}, paths, 0)
	out := make([]StoreEntry, 0, len(upds))
	seen := map[string]bool{}
	for _, u := range upds {
		e, err := w.decodeEntry(u)
		if err != nil {
			return nil, fmt.Errorf("intended dump: %v (raw %v)", err, u.GetPath())
		}
		k := fmt.Sprintf("%s|%d", e.Key(), e.TS)
		if seen[k] {
			continue
		}
		seen[k] = true
		out = append(out, e)
	}
	sort.Slice(out, func(i, j int) bool {
		if out[i].Key() != out[j].Key() {
			return out[i].Key() < out[j].Key()
		}
		return out[i].TS < out[j].TS
	})
	return out, nil
}

func (w *World) dumpFlat(store cachepb.Store) ([]StoreEntry, error) {
	ctx, cancel := context.WithCancel(context.Background())
	defer cancel()
	upds := w.RawCache.Read(ctx, DSName, &cache.Opts{Store: store}, [][]string{{}}, 0)
	out := make([]StoreEntry, 0, len(upds))
	for _, u := range upds {
		e, err := w.decodeEntry(u)
		if err != nil {
			return nil, fmt.Errorf("store %v dump: %v (raw %v)", store, err, u.GetPath())
		}
		out = append(out, e)
	}
	sort.Slice(out, func(i, j int) bool { return out[i].Path.String() < out[j].Path.String() })
	return out, nil
}

func (w *World) DumpConfig() ([]StoreEntry, error) { return w.dumpFlat(cachepb.Store_CONFIG) }
func (w *World) DumpState() ([]StoreEntry, error)  { return w.dumpFlat(cachepb.Store_STATE) }

// RenderEntries: canonical content rendering without timestamps.
func RenderEntries(es []StoreEntry, withOwner bool) []string {
	out := make([]string, 0, len(es))
	for _, e := range es {
		if withOwner {
			out = append(out, e.Key())
		} else {
			out = append(out, e.Path.String()+" = "+NormAbs(e.Abs))
		}
	}
	sort.Strings(out)
	return out
}

// SeedRunning writes an initial running configuration both to the device and to the CONFIG store (as if synced).
func (w *World) SeedRunning(leaves []*Leaf) error {
	var upds []*cache.Update
	for _, l := range leaves {
		w.Dev.State.Set(l)
		if w.Shadow != nil {
			w.Shadow.State.Set(l)
		}
		u, err := w.RawCache.NewUpdate(&sdcpb.Update{Path: l.Path.ToSdcpb(), Value: l.TV})
		if err != nil {
			return err
		}
		upds = append(upds, u)
	}
	if len(upds) == 0 {
		return nil
	}
	return w.RawCache.Modify(context.Background(), DSName, &cache.Opts{Store: cachepb.Store_CONFIG}, nil, upds)
}

func JoinLines(ls []string) string { return strings.Join(ls, "\n") }

var _ = target.TargetStatusConnected

// WriteStore writes updates directly into a store through the undecorated cache (test data seeding).
func (w *World) WriteStore(store cachepb.Store, upds ...*cache.Update) error {
	return w.RawCache.Modify(context.Background(), DSName, &cache.Opts{Store: store}, nil, upds)
}

func (w *World) WriteStoreNamed(store string, u interface{}) error {
	st := cachepb.Store_CONFIG
	if store == "STATE" {
		st = cachepb.Store_STATE
	}
	return w.WriteStore(st, u.(*cache.Update))
}
