// Package sim is the deterministic-simulation core: choice tape, run protocol,
// evidence, replay files, minimiser, known findings and the cooperative scheduler.
package sim

import (
	"encoding/binary"
	"math/rand/v2"
	"os"
)

// Tape is the single source of every decision of a simulated run.
// Exploration: values are drawn lazily from a PCG seeded by the run-seed and recorded.
// Replay / minimisation: values are given; reads past the end return 0 ("simplest").
type Tape struct {
	Vals   []uint32
	pos    int
	rng    *rand.Rand
	frozen bool
	// dump, when set, receives every value at the moment it is consumed (crash triage: the tape of a run that kills
	// its worker process is recovered from this file)
	dump *os.File
}

// DumpTo makes the tape append every consumed value to the file (4 bytes little endian each, unbuffered).
func (t *Tape) DumpTo(path string) error {
	f, err := os.Create(path)
	if err != nil {
		return err
	}
	t.dump = f
	return nil
}

func (t *Tape) note(v uint32) {
	if t.dump != nil {
		var b [4]byte
		binary.LittleEndian.PutUint32(b[:], v)
		t.dump.Write(b[:])
	}
}

// ReadTapeDump reads a file written through DumpTo.
func ReadTapeDump(path string) ([]uint32, error) {
	b, err := os.ReadFile(path)
	if err != nil {
		return nil, err
	}
	out := make([]uint32, 0, len(b)/4)
	for i := 0; i+4 <= len(b); i += 4 {
		out = append(out, binary.LittleEndian.Uint32(b[i:]))
	}
	return out, nil
}

func SplitMix(seed uint64, idx uint64) uint64 {
	z := seed + 0x9e3779b97f4a7c15*(idx+1)
	z = (z ^ (z >> 30)) * 0xbf58476d1ce4e5b9
	z = (z ^ (z >> 27)) * 0x94d049bb133111eb
	return z ^ (z >> 31)
}

func NewTape(runSeed uint64) *Tape {
	return &Tape{rng: rand.New(rand.NewPCG(runSeed, SplitMix(runSeed, 77)))}
}

func ReplayTape(vals []uint32) *Tape {
	c := make([]uint32, len(vals))
	copy(c, vals)
	return &Tape{Vals: c, frozen: true}
}

// Choose returns a value in [0,n). n<=1 consumes nothing.
func (t *Tape) Choose(n int) int {
	if n <= 1 {
		return 0
	}
	if t.pos < len(t.Vals) {
		v := t.Vals[t.pos]
		t.pos++
		t.note(v)
		return int(v % uint32(n))
	}
	if t.frozen || t.rng == nil {
		t.Vals = append(t.Vals, 0)
		t.pos++
		t.note(0)
		return 0
	}
	v := uint32(t.rng.IntN(n))
	t.Vals = append(t.Vals, v)
	t.pos++
	t.note(v)
	return int(v)
}

// Bool is true with probability num/den; false is the simple alternative (tape 0).
func (t *Tape) Bool(num, den int) bool {
	if num <= 0 {
		return false
	}
	if num >= den {
		return true
	}
	// value 0 must map to false: true iff v >= den-num
	return t.Choose(den) >= den-num
}

// Weighted picks an index according to integer weights (index 0 preferred on replay-zero
// only if its weight is non-zero; otherwise the first non-zero weight).
func (t *Tape) Weighted(w []int) int {
	tot := 0
	for _, x := range w {
		if x > 0 {
			tot += x
		}
	}
	if tot == 0 {
		return 0
	}
	v := t.Choose(tot)
	for i, x := range w {
		if x <= 0 {
			continue
		}
		if v < x {
			return i
		}
		v -= x
	}
	return len(w) - 1
}

// Used returns the prefix of the tape that was actually consumed.
func (t *Tape) Used() []uint32 {
	if t.pos > len(t.Vals) {
		return t.Vals
	}
	return t.Vals[:t.pos]
}

func (t *Tape) Pos() int { return t.pos }
