package checks

import (
	"context"
	"fmt"
	"runtime/debug"
	"sort"
	"strings"
	"time"

	"github.com/beevik/etree"
	sdcpb "github.com/sdcio/sdc-protos/sdcpb"
	"google.golang.org/protobuf/proto"
	"google.golang.org/protobuf/types/known/emptypb"

	"github.com/sdcio/data-server/pkg/config"
	"github.com/sdcio/data-server/pkg/datastore/target"
	"github.com/sdcio/data-server/pkg/utils"

	"verif/sim"
	"verif/world"
)

// garbleValue returns a well-formed but unexpected typed value for a leaf.
func garbleValue(t *sim.Tape, orig *sdcpb.TypedValue) (*sdcpb.TypedValue, string) {
	switch t.Choose(22) {
	case 14:
		return &sdcpb.TypedValue{Value: &sdcpb.TypedValue_JsonVal{JsonVal: []byte{}}}, "json-zero-bytes"
	case 15:
		return &sdcpb.TypedValue{Value: &sdcpb.TypedValue_JsonIetfVal{JsonIetfVal: []byte{}}}, "jsonietf-zero-bytes"
	case 16:
		return &sdcpb.TypedValue{Value: &sdcpb.TypedValue_JsonVal{JsonVal: []byte(`null`)}}, "json-null"
	case 17:
		return &sdcpb.TypedValue{Value: &sdcpb.TypedValue_JsonIetfVal{JsonIetfVal: []byte(`{}`)}}, "jsonietf-empty-object"
	case 18:
		return &sdcpb.TypedValue{Value: &sdcpb.TypedValue_JsonVal{JsonVal: []byte(`[]`)}}, "json-empty-array"
	case 19:
		return &sdcpb.TypedValue{Value: &sdcpb.TypedValue_JsonVal{JsonVal: []byte(`{"name":`)}}, "json-truncated"
	case 20:
		return &sdcpb.TypedValue{Value: &sdcpb.TypedValue_BytesVal{BytesVal: []byte{0, 255, 1}}}, "bytes"
	case 21:
		return &sdcpb.TypedValue{Value: &sdcpb.TypedValue_JsonIetfVal{JsonIetfVal: []byte(`{"vsim:name":"a","vsim-ext:unknown":{"a":[null]}}`)}}, "jsonietf-foreign-members"
	case 0:
		return nil, "nil-value"
	case 1:
		return &sdcpb.TypedValue{}, "empty-typedvalue"
	case 2:
		return &sdcpb.TypedValue{Value: &sdcpb.TypedValue_BoolVal{BoolVal: true}}, "bool"
	case 3:
		return &sdcpb.TypedValue{Value: &sdcpb.TypedValue_StringVal{StringVal: "3"}}, "string-3"
	case 4:
		return &sdcpb.TypedValue{Value: &sdcpb.TypedValue_StringVal{StringVal: ""}}, "empty-string"
	case 5:
		return &sdcpb.TypedValue{Value: &sdcpb.TypedValue_LeaflistVal{LeaflistVal: &sdcpb.ScalarArray{Element: []*sdcpb.TypedValue{{}, {Value: &sdcpb.TypedValue_UintVal{UintVal: 1}}}}}}, "leaflist-with-empty-element"
	case 6:
		return &sdcpb.TypedValue{Value: &sdcpb.TypedValue_LeaflistVal{LeaflistVal: &sdcpb.ScalarArray{}}}, "leaflist-empty-array"
	case 7:
		return &sdcpb.TypedValue{Value: &sdcpb.TypedValue_JsonVal{JsonVal: []byte(`{"x":[1,{"y":null}],"name":{}}`)}}, "json-odd-shape"
	case 8:
		return &sdcpb.TypedValue{Value: &sdcpb.TypedValue_JsonVal{JsonVal: []byte(`[[[[[[[[[[1]]]]]]]]]]`)}}, "json-deep-array"
	case 9:
		return &sdcpb.TypedValue{Value: &sdcpb.TypedValue_JsonIetfVal{JsonIetfVal: []byte(`"just a string"`)}}, "jsonietf-scalar"
	case 10:
		return &sdcpb.TypedValue{Value: &sdcpb.TypedValue_DecimalVal{DecimalVal: &sdcpb.Decimal64{}}}, "decimal-zero"
	case 11:
		return &sdcpb.TypedValue{Value: &sdcpb.TypedValue_IdentityrefVal{IdentityrefVal: &sdcpb.IdentityRef{}}}, "identityref-blank"
	case 12:
		return &sdcpb.TypedValue{Value: &sdcpb.TypedValue_UintVal{UintVal: 1<<64 - 1}}, "uint-max"
	default:
		return &sdcpb.TypedValue{Value: &sdcpb.TypedValue_EmptyVal{EmptyVal: &emptypb.Empty{}}}, "empty"
	}
}

// garbleJSONAtAncestor puts an odd JSON / JSON_IETF document on an ancestor (container, list or list entry) of the path.
func garbleJSONAtAncestor(t *sim.Tape, upd *sdcpb.Update) (string, string) {
	if n := len(upd.Path.GetElem()); n > 0 {
		upd.Path.Elem = upd.Path.Elem[:t.Choose(n)]
	}
	docs := []string{"", `null`, `{}`, `[]`, `{"name":`, `{"x":[1,{"y":null}],"name":{}}`, `"just a string"`, `[[[[[[[[[[1]]]]]]]]]]`, `{"vsim:name":"a","vsim-ext:unknown":{"a":[null]}}`, `{"name":null}`, `[{"name":"a"},{"name":"a"}]`, `7`, `{"sys":{"hostname":"h9"}}`, `{"k1":[{"name":"a","val":"v9"}]}`, `{"vsim:sys":{"hostname":"h9"},"vsim:nums":[1,2]}`}
	d := docs[t.Choose(len(docs))]
	if t.Bool(1, 2) {
		upd.Value = &sdcpb.TypedValue{Value: &sdcpb.TypedValue_JsonVal{JsonVal: []byte(d)}}
	} else {
		upd.Value = &sdcpb.TypedValue{Value: &sdcpb.TypedValue_JsonIetfVal{JsonIetfVal: []byte(d)}}
	}
	if t.Bool(1, 6) {
		// the device left the update's path out (the document is meant for the notification's prefix / the root): the
		// path message is absent on the wire and utils.FromGNMIPath hands a nil path on
		upd.Path = nil
		return "no-path", fmt.Sprintf("json-doc %q", d)
	}
	return fmt.Sprintf("ancestor-%d", len(upd.Path.GetElem())), fmt.Sprintf("json-doc %q", d)
}

// garblePath mutates a valid path structurally.
func garblePath(t *sim.Tape, p *sdcpb.Path) (*sdcpb.Path, string) {
	q := proto.Clone(p).(*sdcpb.Path)
	if len(q.Elem) == 0 {
		return q, "same"
	}
	i := t.Choose(len(q.Elem))
	switch t.Choose(13) {
	case 11:
		q.Elem = q.Elem[:len(q.Elem)-1]
		return q, "parent-path"
	case 12:
		q.Elem = q.Elem[:1]
		return q, "top-level-path"
	case 0:
		q.Elem = append(q.Elem[:i], q.Elem[i+1:]...)
		return q, "drop-elem"
	case 1:
		q.Elem = append(q.Elem[:i+1], q.Elem[i:]...)
		return q, "dup-elem"
	case 2:
		q.Elem[i].Name = ""
		return q, "empty-name"
	case 3:
		q.Elem[i].Name = q.Elem[i].Name + "x"
		return q, "unknown-name"
	case 4:
		q.Elem[i].Key = map[string]string{"nokey": "v"}
		return q, "unknown-key"
	case 5:
		q.Elem[i].Key = nil
		return q, "drop-keys"
	case 6:
		q.Elem[i].Key = map[string]string{"": ""}
		return q, "empty-key"
	case 7:
		q.Elem = nil
		return q, "root-path"
	case 8:
		q.Elem = append(q.Elem, &sdcpb.PathElem{Name: q.Elem[len(q.Elem)-1].Name})
		return q, "leaf-below-leaf"
	case 9:
		q.Elem[i] = &sdcpb.PathElem{}
		return q, "blank-elem"
	default:
		return q, "same"
	}
}

// keylessOf returns the schema path (names joined by '/') of an element of a reply document.
func keylessOf(e, root *etree.Element) string {
	names := []string{}
	for cur := e; cur != nil && cur != root; cur = cur.Parent() {
		names = append([]string{cur.Tag}, names...)
	}
	return strings.Join(names, "/")
}

func trimStackC20() string {
	lines := strings.Split(string(debug.Stack()), "\n")
	if len(lines) > 30 {
		lines = lines[:30]
	}
	return strings.Join(lines, "\n")
}

func runC20(rc *sim.RunCtx) {
	t := rc.T
	h, err := NewHist(rc, HistOpts{Profiles: []string{"core", "adversarial", "choice"}, MinTx: 1, MaxTx: 3, Oracles: map[string]bool{}})
	if err != nil {
		rc.HarnessErr("world: %v", err)
		return
	}
	w := h.W
	defer w.Close()
	for s := 0; s < 1+t.Choose(3); s++ {
		h.Step(s)
	}
	si := w.SI
	uni := append(Universe(si, "core"), Universe(si, "constraints")...)
	for _, v := range c12values {
		p := world.P(world.E("types"), world.E(v.leaf))
		uni = append(uni, Slot{Path: p, Node: si.Node(p), Lex: v.lex})
	}
	ncalls := 3 + t.Choose(6)
	for i := 0; i < ncalls; i++ {
		s := uni[t.Choose(len(uni))]
		lex := s.Lex[t.Choose(len(s.Lex))]
		base := &sdcpb.Update{Path: s.Path.ToSdcpb(), Value: MkTV(s.Node, lex, "typed")}
		kind := t.Weighted([]int{6, 3, 3, 2, 2, 1})
		start := time.Now()
		desc := ""
		var callErr error
		switch kind {
		case 0: // garbled TransactionSet
			upd := proto.Clone(base).(*sdcpb.Update)
			m1, m2 := "same", "same"
			if t.Bool(1, 4) {
				m1, m2 = garbleJSONAtAncestor(t, upd)
			} else {
				if t.Bool(2, 3) {
					upd.Path, m1 = garblePath(t, upd.Path)
				}
				if t.Bool(2, 3) {
					upd.Value, m2 = garbleValue(t, upd.Value)
				}
			}
			req := &sdcpb.TransactionSetRequest{DatastoreName: world.DSName, TransactionId: fmt.Sprintf("g%d", i), DryRun: t.Bool(1, 3),
				Intents: []*sdcpb.TransactionIntent{{Intent: []string{"g1", "", "running", "default"}[t.Weighted([]int{6, 1, 1, 1})], Priority: []int32{10, 0, -5, 2147483647}[t.Weighted([]int{6, 1, 1, 1})], Update: []*sdcpb.Update{upd}}}}
			if t.Bool(1, 6) {
				req.Intents = append(req.Intents, &sdcpb.TransactionIntent{})
			}
			if t.Bool(1, 6) {
				req.ReplaceIntent = &sdcpb.TransactionIntent{Update: []*sdcpb.Update{upd}}
			}
			desc = fmt.Sprintf("TransactionSet path:%s value:%s on %s", m1, m2, s.Path)
			rc.Probe("garble-set")
			rc.Logf("CALL %s", desc)
			ctx, cancel := context.WithTimeout(w.Ctx, 5*time.Second)
			rsp, err := w.Srv.TransactionSet(ctx, req)
			cancel()
			callErr = err
			if err == nil && rsp != nil && !req.DryRun {
				w.Srv.TransactionConfirm(w.Ctx, &sdcpb.TransactionConfirmRequest{DatastoreName: world.DSName, TransactionId: req.TransactionId})
			}
		case 1: // garbled GetData
			p, m1 := garblePath(t, base.Path)
			req := &sdcpb.GetDataRequest{Name: world.DSName, Path: []*sdcpb.Path{p}, Datastore: &sdcpb.DataStore{Type: []sdcpb.Type{sdcpb.Type_MAIN, sdcpb.Type_INTENDED, sdcpb.Type_CANDIDATE}[t.Choose(3)], Owner: "g1", Priority: []int32{10, -1, 0}[t.Choose(3)]},
				DataType: []sdcpb.DataType{sdcpb.DataType_ALL, sdcpb.DataType_CONFIG, sdcpb.DataType_STATE}[t.Choose(3)], Encoding: []sdcpb.Encoding{sdcpb.Encoding_STRING, sdcpb.Encoding_JSON, sdcpb.Encoding_JSON_IETF, sdcpb.Encoding_PROTO, sdcpb.Encoding(9)}[t.Choose(5)]}
			desc = fmt.Sprintf("GetData path:%s %s %s %s on %s", m1, req.Datastore.Type, req.DataType, req.Encoding, s.Path)
			rc.Probe("garble-getdata")
			rc.Logf("CALL %s", desc)
			_, _, gerr := collectGet(rc, w, req)
			if gerr != nil && strings.HasPrefix(gerr.Error(), "HANG") {
				rc.Report(sim.Item{Prop: "C20", Clause: "C20.hang", Fields: map[string]string{"call": desc}, Detail: "GetData did not return within 60 simulated seconds"})
				return
			}
		case 2: // garbled device notification into the conversion used by Sync
			upd := proto.Clone(base).(*sdcpb.Update)
			m1, m2 := "same", "same"
			if t.Bool(1, 3) {
				m1, m2 = garbleJSONAtAncestor(t, upd)
			} else {
				if t.Bool(1, 2) {
					upd.Path, m1 = garblePath(t, upd.Path)
				}
				if t.Bool(2, 3) {
					upd.Value, m2 = garbleValue(t, upd.Value)
				}
			}
			n := &sdcpb.Notification{Update: []*sdcpb.Update{upd}}
			if t.Bool(1, 3) {
				dp, _ := garblePath(t, base.Path)
				n.Delete = []*sdcpb.Path{dp}
			}
			desc = fmt.Sprintf("device notification path:%s value:%s on %s", m1, m2, s.Path)
			rc.Probe("garble-notification")
			rc.Logf("CALL %s", desc)
			c20sync(rc, w, n)
		case 4: // garbled Subscribe request (streaming handler: must return at the latest shortly after the client goes away)
			req := &sdcpb.SubscribeRequest{Name: []string{world.DSName, "", "nosuchds"}[t.Weighted([]int{6, 1, 1})]}
			nsub := t.Choose(4)
			for j := 0; j < nsub; j++ {
				p, _ := garblePath(t, base.Path)
				sub := &sdcpb.Subscription{Path: []*sdcpb.Path{p}, SampleInterval: []uint64{uint64(time.Second), 0, 1, 1 << 62}[t.Choose(4)],
					DataType: []sdcpb.DataType{sdcpb.DataType_CONFIG, sdcpb.DataType_ALL, sdcpb.DataType_STATE, sdcpb.DataType(7)}[t.Choose(4)]}
				// (a repeated message field never holds nil after protobuf decoding: the empty message is what the wire can carry)
				switch t.Choose(6) {
				case 0:
					sub.Path = nil
				case 1:
					sub.Path = append(sub.Path, &sdcpb.Path{})
				case 2:
					sub = &sdcpb.Subscription{}
				}
				req.Subscription = append(req.Subscription, sub)
			}
			desc = fmt.Sprintf("Subscribe subs=%d on %s", nsub, s.Path)
			rc.Probe("garble-subscribe")
			rc.Logf("CALL %s", desc)
			st := world.NewFakeStream[*sdcpb.SubscribeResponse](w.Ctx, "subscribe", world.StreamPlan{FailAt: -1, StallAt: -1, CancelDelay: -1}, nil)
			done := make(chan error, 1)
			go func() {
				defer func() {
					if r := recover(); r != nil {
						rc.Report(sim.Item{Prop: "C20", Clause: "C20.panic", Detail: fmt.Sprintf("panic in Subscribe: %v\n%s", r, trimStackC20()), Fields: map[string]string{"where": "subscribe-handler", "panic": fmt.Sprint(r)}})
						done <- fmt.Errorf("panic")
					}
				}()
				done <- w.Srv.Subscribe(req, st)
			}()
			time.Sleep(3 * time.Second)
			st.Cancel()
			select {
			case callErr = <-done:
			case <-time.After(60 * time.Second):
				rc.Report(sim.Item{Prop: "C20", Clause: "C20.hang", Fields: map[string]string{"call": desc}, Detail: "Subscribe did not return within 60 simulated seconds after the client went away"})
				return
			}
			start = time.Now() // the 3 s the client stayed are not the handler's
		case 5: // Confirm / Cancel / WatchDeviations with odd names and ids
			rc.Probe("garble-confirm-cancel")
			id := []string{"", "g0", "nosuch", strings.Repeat("x", 5000)}[t.Choose(4)]
			ds := []string{world.DSName, "", "nosuchds"}[t.Choose(3)]
			desc = fmt.Sprintf("Confirm/Cancel ds=%q id-len=%d", ds, len(id))
			rc.Logf("CALL %s", desc)
			if t.Bool(1, 2) {
				_, callErr = w.Srv.TransactionConfirm(w.Ctx, &sdcpb.TransactionConfirmRequest{DatastoreName: ds, TransactionId: id})
			} else {
				_, callErr = w.Srv.TransactionCancel(w.Ctx, &sdcpb.TransactionCancelRequest{DatastoreName: ds, TransactionId: id})
			}
			if t.Bool(1, 3) {
				st := world.NewFakeStream[*sdcpb.WatchDeviationResponse](w.Ctx, "dev", world.StreamPlan{FailAt: -1, StallAt: -1, CancelDelay: -1}, nil) // no peer in the context
				done := make(chan error, 1)
				go func() {
					defer func() {
						if r := recover(); r != nil {
							rc.Report(sim.Item{Prop: "C20", Clause: "C20.panic", Detail: fmt.Sprintf("panic in WatchDeviations: %v\n%s", r, trimStackC20()), Fields: map[string]string{"where": "watchdeviations-handler", "panic": fmt.Sprint(r)}})
							done <- fmt.Errorf("panic")
						}
					}()
					done <- w.Srv.WatchDeviations(&sdcpb.WatchDeviationRequest{Name: []string{ds, ""}[:1+t.Choose(2)]}, st)
				}()
				time.Sleep(time.Second)
				st.Cancel()
				select {
				case <-done:
				case <-time.After(60 * time.Second):
					rc.Report(sim.Item{Prop: "C20", Clause: "C20.hang", Fields: map[string]string{"call": "WatchDeviations"}, Detail: "WatchDeviations did not return within 60 simulated seconds after the client went away"})
					return
				}
				start = time.Now()
			}
		case 3: // garbled NETCONF get-config reply through the real ncTarget.Get / XML adapter
			desc = "netconf get-config reply"
			rc.Probe("garble-netconf-reply")
			doc := etree.NewDocument()
			root := doc.CreateElement("data")
			e := root
			for j, pe := range s.Path {
				name := pe.Name
				if t.Bool(1, 6) {
					name += "zz"
				}
				e = e.CreateElement(name)
				if j == 0 && t.Bool(1, 2) {
					e.CreateAttr("xmlns", []string{"urn:vsim", "urn:other", ""}[t.Choose(3)])
				}
				keyNames := make([]string, 0, len(pe.Keys))
				for k := range pe.Keys {
					keyNames = append(keyNames, k)
				}
				sort.Strings(keyNames) // the draws below must not depend on map iteration order
				for _, k := range keyNames {
					if t.Bool(4, 5) {
						e.CreateElement(k).SetText(pe.Keys[k])
					}
				}
			}
			e.SetText([]string{lex, "", "notanumber", "99999999999999999999999"}[t.Choose(4)])
			if t.Bool(1, 6) {
				// the reply stops at a list entry: only (some of) its key leaves, nothing below
				for cur := e; cur != nil && cur != root; cur = cur.Parent() {
					if n := w.SI.Nodes[keylessOf(cur, root)]; n != nil && n.Kind == world.KList {
						for _, c := range cur.ChildElements() {
							isKey := false
							for _, k := range n.Keys {
								if c.Tag == k {
									isKey = true
								}
							}
							if !isKey {
								cur.RemoveChild(c)
							}
						}
						rc.Probe("netconf-reply-entry-with-keys-only")
						if len(n.Keys) > 1 && t.Bool(1, 2) {
							// ... and the last key of a multi-key list is missing
							if ke := cur.SelectElement(n.Keys[len(n.Keys)-1]); ke != nil {
								cur.RemoveChild(ke)
								rc.Probe("netconf-reply-entry-partially-keyed")
							}
						}
						break
					}
				}
			}
			if t.Bool(1, 4) {
				e.CreateElement("unexpected").SetText("x")
			}
			if t.Bool(1, 5) {
				// the device also reports a leaf-list that sits right below the module, as siblings of the top-level containers
				for j := 0; j <= t.Choose(3); j++ {
					root.CreateElement("tll").SetText(fmt.Sprintf("t%d", j))
				}
				rc.Probe("netconf-reply-top-level-leaf-list")
			}
			drv := world.NewNCDriver(nil)
			drv.GetConfigFn = func(string, string) (*etree.Document, error) { return doc, nil }
			cfg := &config.SBI{Type: "netconf", NetconfOptions: &config.SBINetconfOptions{CommitDatastore: "candidate", IncludeNS: t.Bool(1, 2)}}
			tgt := target.VerifNewNCTarget("dev", cfg, w.DS.VerifSchemaClientBound(), drv)
			ds, _ := doc.WriteToString()
			rc.Logf("CALL %s %s", desc, ds)
			reqPath := base.Path
			if t.Bool(1, 2) && len(base.Path.GetElem()) > 0 {
				// ask for the whole top-level node (a request path through a multi-key list does not get as far as the reply)
				reqPath = &sdcpb.Path{Elem: []*sdcpb.PathElem{{Name: base.Path.GetElem()[0].GetName()}}}
			}
			_, callErr = tgt.Get(w.Ctx, &sdcpb.GetDataRequest{Path: []*sdcpb.Path{reqPath}, Datastore: &sdcpb.DataStore{Type: sdcpb.Type_MAIN}})
		}
		rc.Step()
		rc.NonTrivial()
		rc.SigAdd(desc)
		rc.Logf("RET  err=%t", callErr != nil)
		if d := time.Since(start); d > 60*time.Second {
			rc.Report(sim.Item{Prop: "C20", Clause: "C20.slow", Fields: map[string]string{"call": desc}, Detail: fmt.Sprintf("call took %s of simulated time", d)})
		}
	}
}

// c20sync pushes one notification through the real Datastore.Sync and waits until it is consumed.
func c20sync(rc *sim.RunCtx, w *world.World, n *sdcpb.Notification) {
	w.Cfg.Sync = &config.Sync{Validate: rc.T.Bool(1, 2), Buffer: 4, WriteWorkers: 1}
	ds2 := w.DS
	_ = ds2
	// the datastore was built without a sync config; use the conversion entry points Sync relies on directly
	conv := newConverter(w)
	cn, err := conv.ConvertNotificationTypedValues(w.Ctx, n)
	if err == nil && cn != nil {
		for _, u := range cn.GetUpdate() {
			conv.ExpandUpdateKeysAsLeaf(w.Ctx, u)
			w.RawCache.NewUpdate(u)
		}
	}
}

func newConverter(w *world.World) *utils.Converter {
	return utils.NewConverter(w.DS.VerifSchemaClientBound())
}

func init() {
	Register(&sim.Check{
		ID: "C20", Level: "exploration", Run: runC20,
		Rule: "after a short history, 3-8 structurally mutated but protobuf-/XML-well-formed messages per run reach the running system from its peers: TransactionSet requests (path elements dropped/duplicated/renamed/nil, keys on non-lists, missing or empty keys, values of the wrong kind for the leaf type incl. nil, nil arrays, nil decimal/identityref, odd JSON shapes, scalars as JSON blobs, odd intent names and priorities, nil intents, replace intents), GetData requests (same path mutations x store/type/encoding incl. an undefined encoding), device notifications through the conversion functions Sync uses, NETCONF get-config replies (unknown tags, missing keys, wrong namespaces, bad numbers) through the real ncTarget.Get and XML adapter, odd JSON documents (zero bytes, null, {}, [], truncated, odd shapes) at ancestors, and garbled Subscribe, WatchDeviations, Confirm and Cancel requests. Oracle: every call returns (value or error) within 60 simulated seconds, nothing panics (a panic in a handler is a violation because the gRPC chain has no recovery), the worker process survives. Every call is non-trivial; distinct = (call kind, mutations, node).",
		Real: append(append([]string{}, realCore...), "pkg/server handlers, pkg/utils converter, pkg/datastore/target/nc.go Get + netconf XML2sdcpbConfigAdapter"), Stub: append(append([]string{}, stubCore...), "netconf.Driver (serves the garbled reply)"),
		Assume:           []string{"byte-level parser fuzzing of ParsePath/JSON/XML on arbitrary strings is out of scope (a fuzzing target, not a simulation target); messages are well-formed at the protobuf/XML level"},
		CrashIsViolation: true, HangIsViolation: true,
		RequiredProbes: []string{"garble-set", "garble-getdata", "garble-notification", "garble-netconf-reply", "garble-subscribe", "garble-confirm-cancel"},
		QuickSeconds:   30, ThoroughSeconds: 480,
	})
}
