package checks

import (
	"fmt"
	"sort"
	"strings"
	"time"

	"github.com/sdcio/data-server/pkg/config"

	"verif/sim"
	"verif/world"
)

func classesOf(vs []Violation) string {
	set := map[string]bool{}
	for _, v := range vs {
		set[v.Class] = true
	}
	out := make([]string, 0, len(set))
	for c := range set {
		out = append(out, c)
	}
	sort.Strings(out)
	return strings.Join(out, "+")
}

// runConstraints drives histories over the constraints profile; prop selects the emphasis (C03 or C04).
func runConstraints(rc *sim.RunCtx, prop string) {
	t := rc.T
	si, err := world.LoadSchema()
	if err != nil {
		rc.HarnessErr("schema: %v", err)
		return
	}
	var dis config.Validators
	if prop == "C04" {
		// each validator switch on/off per run
		flip := func(name string) bool {
			if t.Bool(1, 4) {
				rc.Buggify("disabled-" + name)
				return true
			}
			return false
		}
		dis = config.Validators{Mandatory: flip("mandatory"), Leafref: flip("leafref"), LeafrefMinMaxAttributes: flip("minmax"), Pattern: flip("pattern"),
			MustStatement: flip("must"), Length: flip("length"), Range: flip("range")}
	}
	seqVal := t.Bool(1, 2)
	w, err := world.New(rc, world.Opts{DisableConcurrency: seqVal, Disabled: dis})
	if err != nil {
		rc.HarnessErr("world: %v", err)
		return
	}
	defer w.Close()
	cfg := SwarmCfg(t, "constraints", map[string]bool{"create": true, "change": true, "grow": true, "shrink": true, "delete": true, "reprio": true, "resubmit": true, "orphan": true})
	cfg.FormW = []int{4, 1, 0, 0}
	cfg.InvalidPct = []int{0, 8, 20}[t.Choose(3)]
	g := NewGen(t, si, cfg)
	m := NewModel(si)
	m.DevHas = func(p string) bool { _, ok := w.Dev.State[p]; return ok }
	rc.Scenario("constraints profile; disabled=%+v invalidPct=%d seqvalidation=%t", dis, cfg.InvalidPct, seqVal)
	nsteps := 2 + t.Choose(7)
	if rc.Tier == "thorough" {
		nsteps = 2 + t.Choose(14)
	}
	for step := 0; step < nsteps; step++ {
		time.Sleep(time.Second)
		rc.AddSim(1)
		tx := g.GenTx(m)
		if tx == nil {
			continue
		}
		// an orphan delete stands alone: combined with a regular delete of the other definers of a path the model
		// cannot tell which value the device keeps
		for _, is := range tx.Intents {
			if is.Orphan {
				tx.Intents = []IntentSpec{is}
				rc.Probe("orphan-delete")
				break
			}
		}
		dry := false
		if prop == "C03" {
			dry = t.Bool(1, 3)
		} else {
			dry = t.Bool(1, 8)
		}
		tx.DryRun = dry
		// ground truth from the evaluator over the configuration that acceptance would produce
		after := m.Clone()
		after.Accept(tx)
		viol := EnabledViolations(EvalConstraints(after.MergedConfig()), dis)
		allViol := EvalConstraints(after.MergedConfig())
		expectAccept := len(viol) == 0
		intBefore, e1 := w.DumpIntended()
		cfgBefore, e2 := w.DumpConfig()
		if e1 != nil || e2 != nil {
			rc.HarnessErr("dump: %v %v", e1, e2)
			return
		}
		rc.Step()
		rc.Scenario("%d: %s   [evaluator: %d violations %s]", step, tx.Render(), len(viol), classesOf(viol))
		res := ExecTx(rc, w, tx, 5*time.Second)
		w.NoteTimer(30 * time.Second)
		accepted := res.Accepted()
		f := map[string]string{"dryrun": fmt.Sprint(dry), "expected": fmt.Sprint(expectAccept), "observed": fmt.Sprint(accepted), "classes": classesOf(viol), "edits": renderEdits(tx),
			"disabled_classes": classesOf(diffViol(allViol, viol))}
		rc.SigAdd(fmt.Sprintf("%s|dry%t|exp%t|obs%t|%s", renderEdits(tx), dry, expectAccept, accepted, classesOf(viol)))
		if !expectAccept {
			rc.Probe("invalid-" + classesOf(viol))
			rc.NonTrivial()
		}
		if len(allViol) > len(viol) {
			rc.Probe("violation-of-disabled-validator")
		}
		// ---- C04 evaluator leg ----
		// cause of the violations: did this transaction REMOVE something an untouched leaf's constraint depends on?
		cause := "new-value"
		preMerged := m.MergedConfig()
		postMerged := after.MergedConfig()
		removed := 0
		for k := range preMerged {
			if _, ok := postMerged[k]; !ok {
				removed++
			}
		}
		if len(viol) > 0 && removed > 0 {
			all := true
			for _, v := range viol {
				_, before := preMerged[v.Dep]
				_, afterOk := postMerged[v.Dep]
				if v.Dep == "" || !before || afterOk {
					all = false
				}
			}
			if all {
				cause = "dependency-removed"
			}
		}
		f["cause"] = cause
		if accepted != expectAccept {
			clause := "C04.invalid-accepted"
			if accepted {
				f["first"] = viol[0].Class + " " + viol[0].Path
			} else {
				clause = "C04.valid-refused"
				f["error"] = normErr(res.Err)
				for _, e := range res.IntentErrors {
					if len(e) > 0 {
						f["error"] = e[0]
					}
				}
				// which enforced class does the implementation claim? (texts are not parsed by the oracle; diagnostics only)
			}
			rc.Report(sim.Item{Prop: "C04", Clause: clause, Step: step, Fields: f,
				Detail: fmt.Sprintf("evaluator says the resulting configuration has %d violations of enabled validators %v; TransactionSet accepted=%t (err=%s intentErrors=%v)", len(viol), viol, accepted, normErr(res.Err), res.IntentErrors)})
		}
		// ---- C03: rejected and dry-run transactions change nothing ----
		if !accepted || dry {
			if res.SetsAfter != res.SetsBefore {
				rc.Report(sim.Item{Prop: "C03", Clause: "C03.device-written", Step: step, Fields: f, Detail: fmt.Sprintf("%d device calls during a rejected / dry-run TransactionSet", res.SetsAfter-res.SetsBefore)})
			}
			intAfter, e1 := w.DumpIntended()
			cfgAfter, e2 := w.DumpConfig()
			if e1 != nil || e2 != nil {
				rc.HarnessErr("dump: %v %v", e1, e2)
				return
			}
			a, b := diffSets(world.RenderEntries(intBefore, true), world.RenderEntries(intAfter, true))
			if len(a)+len(b) > 0 {
				rc.Report(sim.Item{Prop: "C03", Clause: "C03.intended-changed", Step: step, Fields: f, Detail: fmt.Sprintf("-%v +%v", a, b)})
			}
			a, b = diffSets(world.RenderEntries(cfgBefore, false), world.RenderEntries(cfgAfter, false))
			if len(a)+len(b) > 0 {
				rc.Report(sim.Item{Prop: "C03", Clause: "C03.running-changed", Step: step, Fields: f, Detail: fmt.Sprintf("-%v +%v", a, b)})
			}
		}
		if (!accepted || dry) && prop == "C03" && t.Bool(1, 3) {
			// a rejected or dry-run request leaves nothing behind that a later Cancel / Confirm of its id could act on
			rc.Probe("cancel-after-rejection")
			setsBefore := len(w.Dev.Sets)
			var cerr error
			verb := "TransactionCancel"
			if t.Bool(1, 2) {
				cerr = Cancel(rc, w, tx.ID)
			} else {
				verb = "TransactionConfirm"
				cerr = Confirm(rc, w, tx.ID)
			}
			ff := copyFields(f)
			ff["verb"] = verb
			ff["dry"] = fmt.Sprint(dry)
			if cerr == nil {
				rc.Report(sim.Item{Prop: "C03", Clause: "C03.rejected-left-open", Step: step, Fields: ff, Detail: verb + " of the id of a rejected / dry-run TransactionSet succeeded: the request left an open transaction behind"})
			}
			if len(w.Dev.Sets) != setsBefore {
				rc.Report(sim.Item{Prop: "C03", Clause: "C03.device-written", Step: step, Fields: ff, Detail: fmt.Sprintf("%d device calls during %s of a rejected / dry-run TransactionSet", len(w.Dev.Sets)-setsBefore, verb)})
			}
			intAfter, e1 := w.DumpIntended()
			cfgAfter, e2 := w.DumpConfig()
			if e1 != nil || e2 != nil {
				rc.HarnessErr("dump: %v %v", e1, e2)
				return
			}
			if a, b := diffSets(world.RenderEntries(intBefore, true), world.RenderEntries(intAfter, true)); len(a)+len(b) > 0 {
				rc.Report(sim.Item{Prop: "C03", Clause: "C03.intended-changed", Step: step, Fields: ff, Detail: fmt.Sprintf("after %s: -%v +%v", verb, a, b)})
			}
			if a, b := diffSets(world.RenderEntries(cfgBefore, false), world.RenderEntries(cfgAfter, false)); len(a)+len(b) > 0 {
				rc.Report(sim.Item{Prop: "C03", Clause: "C03.running-changed", Step: step, Fields: ff, Detail: fmt.Sprintf("after %s: -%v +%v", verb, a, b)})
			}
		}
		if accepted && dry {
			// the same request for real, from the same state: device must receive what the dry run reported
			rc.Probe("dryrun-then-real")
			real := *tx
			real.ID = tx.ID + "-real"
			real.DryRun = false
			rres := ExecTx(rc, w, &real, 5*time.Second)
			if !rres.Accepted() {
				ff := copyFields(f)
				ff["error"] = normErr(rres.Err)
				rc.Report(sim.Item{Prop: "C03", Clause: "C03.dryrun-ok-real-refused", Step: step, Fields: ff, Detail: fmt.Sprintf("dry run succeeded but the same request executed for real was refused: %s %v", normErr(rres.Err), rres.IntentErrors)})
			} else {
				if rres.SetsAfter == rres.SetsBefore+1 {
					rec := w.Dev.Sets[rres.SetsAfter-1]
					var du, dd []string
					for _, u := range rec.Updates {
						du = append(du, u.Path.String()+" = "+world.NormAbs(u.Abs))
					}
					for _, d := range rec.Deletes {
						dd = append(dd, d.String())
					}
					a, b := diffSets(res.Updates, du)
					c, d := diffSets(res.Deletes, dd)
					if len(a)+len(b)+len(c)+len(d) > 0 {
						rc.Report(sim.Item{Prop: "C03", Clause: "C03.dryrun-differs", Step: step, Fields: f,
							Detail: fmt.Sprintf("dry run reported updates %v deletes %v that the real run did not send; real run sent updates %v deletes %v that the dry run did not report", a, c, b, d)})
					}
				}
				m.Accept(tx)
				Confirm(rc, w, real.ID)
			}
			continue
		}
		if accepted && !dry {
			m.Accept(tx)
			if err := Confirm(rc, w, tx.ID); err != nil {
				rc.Report(sim.Item{Prop: "C06", Clause: "C06.confirm-open-failed", Step: step, Detail: normErr(err)})
			}
			// ---- C04 metamorphic leg: the same resulting configuration as ONE intent on an empty datastore ----
			if prop == "C04" && t.Bool(1, 3) {
				c04flat(rc, m, dis, seqVal, step, true, cause)
			}
		} else if !accepted && prop == "C04" && t.Bool(1, 3) {
			c04flat(rc, after, dis, seqVal, step, false, cause)
		}
		if !accepted && accepted != expectAccept {
			// the model did not move; nothing else to do
		}
		if accepted != expectAccept && accepted {
			// an invalid configuration is now live; later verdicts would be consequences
			return
		}
	}
	// ---- C03: replace intent with an invalid value must surface ----
	if prop == "C03" && t.Bool(1, 2) {
		rc.Probe("invalid-replace")
		bad := NewMLeaf(si, world.P(world.E("sys"), world.E("mtu")), "10")
		ok := NewMLeaf(si, world.P(world.E("sys"), world.E("hostname")), "h1")
		tx := &TxSpec{ID: "rep1", Replace: &IntentSpec{Name: "replace", Prio: 1, Leaves: []*MLeaf{bad, ok}, Form: "typed", Edit: "replace"}}
		if t.Bool(1, 2) {
			tx.Intents = []IntentSpec{{Name: "o4", Prio: 77, Leaves: []*MLeaf{NewMLeaf(si, world.P(world.E("sys"), world.E("descr")), "d1")}, Form: "typed", Edit: "create"}}
		}
		rc.Scenario("final: %s", tx.Render())
		res := ExecTx(rc, w, tx, 5*time.Second)
		if res.Err == nil && !res.HasIntentErrors() {
			rc.Report(sim.Item{Prop: "C03", Clause: "C03.invalid-replace-success", Fields: map[string]string{"with_intents": fmt.Sprint(len(tx.Intents))},
				Detail: "a replace intent whose mtu violates range 68..9000 was answered with success (no error, no intent errors)"})
		}
	}
}

func diffViol(all, enabled []Violation) []Violation {
	en := map[string]bool{}
	for _, v := range enabled {
		en[v.Class+v.Path] = true
	}
	var out []Violation
	for _, v := range all {
		if !en[v.Class+v.Path] {
			out = append(out, v)
		}
	}
	return out
}

// c04flat submits the merged configuration of model m as one intent to a fresh, empty datastore.
func c04flat(rc *sim.RunCtx, m *Model, dis config.Validators, seqVal bool, step int, origAccepted bool, cause string) {
	merged := m.MergedConfig()
	if len(merged) == 0 {
		return
	}
	w2, err := world.New(rc, world.Opts{DisableConcurrency: seqVal, Disabled: dis})
	if err != nil {
		rc.HarnessErr("world2: %v", err)
		return
	}
	defer w2.Close()
	keys := make([]string, 0, len(merged))
	for k := range merged {
		keys = append(keys, k)
	}
	sort.Strings(keys)
	is := IntentSpec{Name: "flat", Prio: 10, Form: "typed", Edit: "create"}
	for _, k := range keys {
		if merged[k].Node.IsKeyLeaf() {
			continue
		}
		is.Leaves = append(is.Leaves, merged[k])
	}
	if len(is.Leaves) == 0 {
		return
	}
	rc.Probe("flatten-and-resubmit")
	tx := &TxSpec{ID: fmt.Sprintf("flat%d", step), Intents: []IntentSpec{is}}
	rc.Logf("--- metamorphic leg: resulting configuration as one intent on an empty datastore")
	res := ExecTx(rc, w2, tx, 5*time.Second)
	w2.NoteTimer(30 * time.Second)
	if res.Accepted() != origAccepted {
		viol := EnabledViolations(EvalConstraints(merged), dis)
		rc.Report(sim.Item{Prop: "C04", Clause: "C04.split-dependent", Step: step, Fields: map[string]string{"split_verdict": fmt.Sprint(origAccepted), "flat_verdict": fmt.Sprint(res.Accepted()), "classes": classesOf(viol)},
			Detail: fmt.Sprintf("the history was answered accepted=%t, the same resulting configuration as a single intent on an empty datastore accepted=%t (evaluator: %v; flat errors: %s %v)", origAccepted, res.Accepted(), viol, normErr(res.Err), res.IntentErrors)})
	}
}

func init() {
	Register(&sim.Check{
		ID: "C03", Level: "exploration", Run: func(rc *sim.RunCtx) { runConstraints(rc, "C03") },
		Rule: "histories over the constraints profile of vsim (range, length, pattern incl. inverted, leaf-list range, mandatory, leafref, must across siblings and branches, min/max-elements); each value draw is invalid with probability 0/8/20 % per run, cross-leaf constraints become invalid through the history itself; a third of the transactions are dry runs; mixed valid/invalid intents occur naturally in multi-intent transactions; a final request with an invalid replace intent in half of the runs. Oracle: rejected or dry-run => no device call, both stores identical; dry run followed by the same request for real => device receives exactly the reported updates/deletes; invalid replace never answered with success; in a third of the rejected / dry-run steps TransactionCancel or TransactionConfirm of that id follows and must fail without touching device or stores. Non-trivial = a step the evaluator judges invalid; distinct = signature (edit kinds, dry, verdicts, violated classes).",
		Real: realCore, Stub: stubCore,
		RequiredProbes: []string{"dryrun-then-real", "invalid-replace"},
		QuickSeconds:   30, ThoroughSeconds: 480,
	})
	Register(&sim.Check{
		ID: "C04", Level: "exploration", Run: func(rc *sim.RunCtx) { runConstraints(rc, "C04") },
		Rule: "same histories as C03 with every validator switch independently disabled with probability 1/4 per run. Two independent legs: (1) the harness's own constraint evaluator for the vsim modules judges the configuration the merge model predicts for acceptance (accepted <=> no violation of an enabled validator); (2) metamorphic: the predicted configuration flattened into one intent on a fresh empty datastore must get the same verdict. Non-trivial = a step the evaluator judges invalid; distinct = signature.",
		Real: realCore, Stub: stubCore,
		Assume:         []string{"the harness's constraint evaluator implements exactly the constraints declared in schema/vsim.yang (unit-level agreement is checked by the metamorphic leg)"},
		RequiredProbes: []string{"flatten-and-resubmit", "violation-of-disabled-validator"},
		QuickSeconds:   30, ThoroughSeconds: 480,
	})
}
