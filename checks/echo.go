package checks

import (
	"context"
	"encoding/json"
	"fmt"
	"sort"
	"strings"

	"github.com/beevik/etree"
	"github.com/openconfig/gnmi/proto/gnmi"
	sdcpb "github.com/sdcio/sdc-protos/sdcpb"

	"github.com/sdcio/data-server/pkg/config"
	"github.com/sdcio/data-server/pkg/datastore/target"
	"github.com/sdcio/data-server/pkg/utils"

	"verif/sim"
	"verif/world"
)

// Full device echo: the device reports its WHOLE configuration the way real devices do - gNMI: one notification per container
// or list entry with the container's path as prefix and one update per leaf (typed scalars or JSON_IETF values); NETCONF: one
// get-config reply holding everything - through the real device-side converters (utils.ToSchemaNotification, ncTarget.Get with
// the XML adapter). The notifications are meant for the real Datastore.Sync.

var deviceEchoStyles = []string{"gnmi-typed-prefixed", "gnmi-json_ietf-prefixed", "gnmi-typed-flat", "netconf-xml"}

func jsonMarshal(v any) ([]byte, error) { return json.Marshal(v) }

// absToLex renders an abstract value back as the lexical form a device would print (types of the core/presence/choice profiles).
func absToLex(abs string) (string, bool) {
	switch {
	case strings.HasPrefix(abs, "str:"):
		return strings.TrimPrefix(abs, "str:"), true
	case strings.HasPrefix(abs, "int:"):
		return strings.TrimPrefix(abs, "int:"), true
	case strings.HasPrefix(abs, "bool:"):
		return strings.TrimPrefix(abs, "bool:"), true
	case strings.HasPrefix(abs, "enum:"):
		return strings.TrimPrefix(abs, "enum:"), true
	case abs == "empty":
		return "", true
	case strings.HasPrefix(abs, "ll:["):
		inner := strings.TrimSuffix(strings.TrimPrefix(abs, "ll:["), "]")
		if inner == "" {
			return "", true
		}
		var out []string
		for _, e := range strings.Split(inner, "|") {
			l, ok := absToLex(e)
			if !ok {
				return "", false
			}
			out = append(out, l)
		}
		return strings.Join(out, ","), true
	}
	return "", false
}

// deviceEcho builds the notifications for the given device state.
func deviceEcho(t *sim.Tape, w *world.World, st world.DevState, style string) ([]*sdcpb.Notification, error) {
	si := w.SI
	// group the leaves by parent path
	type grp struct {
		parent world.Path
		leaves []*MLeaf
	}
	groups := map[string]*grp{}
	var all []*MLeaf
	for _, k := range st.Keys() {
		l := st[k]
		n := si.Node(l.Path)
		if n == nil {
			return nil, fmt.Errorf("no schema node for %s", l.Path)
		}
		if n.Kind == world.KContainer {
			continue // presence markers travel with the children (gNMI) or as element (XML, below)
		}
		lex, ok := absToLex(world.NormAbs(l.Abs))
		if !ok {
			return nil, fmt.Errorf("cannot render %s", l.Abs)
		}
		ml := NewMLeaf(si, l.Path, lex)
		all = append(all, ml)
		pk := l.Path[:len(l.Path)-1].String()
		if groups[pk] == nil {
			groups[pk] = &grp{parent: l.Path[:len(l.Path)-1].Clone()}
		}
		groups[pk].leaves = append(groups[pk].leaves, ml)
	}
	gks := make([]string, 0, len(groups))
	for k := range groups {
		gks = append(gks, k)
	}
	sort.Strings(gks)
	val := func(l *MLeaf, ietf bool) *gnmi.TypedValue {
		if l.Node.Kind == world.KLeafList {
			if ietf {
				arr := []any{}
				if l.Lex != "" {
					for _, e := range strings.Split(l.Lex, ",") {
						arr = append(arr, jsonScalar(l.Node, e, true))
					}
				}
				b, _ := jsonMarshal(arr)
				return &gnmi.TypedValue{Value: &gnmi.TypedValue_JsonIetfVal{JsonIetfVal: b}}
			}
			arr := &gnmi.ScalarArray{}
			if l.Lex != "" {
				for _, e := range strings.Split(l.Lex, ",") {
					arr.Element = append(arr.Element, gnmiScalar(l.Node.Type, e))
				}
			}
			return &gnmi.TypedValue{Value: &gnmi.TypedValue_LeaflistVal{LeaflistVal: arr}}
		}
		if ietf {
			b, _ := jsonMarshal(jsonScalar(l.Node, l.Lex, true))
			return &gnmi.TypedValue{Value: &gnmi.TypedValue_JsonIetfVal{JsonIetfVal: b}}
		}
		return gnmiScalar(l.Node.Type, l.Lex)
	}
	var out []*sdcpb.Notification
	switch style {
	case "gnmi-typed-prefixed", "gnmi-json_ietf-prefixed":
		ietf := style == "gnmi-json_ietf-prefixed"
		for _, gk := range gks {
			g := groups[gk]
			gn := &gnmi.Notification{Prefix: toGnmiPath(g.parent)}
			// the order of the updates within a notification is the device's business: rotate it
			if n := len(g.leaves); n > 1 {
				r := t.Choose(n)
				g.leaves = append(append([]*MLeaf(nil), g.leaves[r:]...), g.leaves[:r]...)
			}
			for _, l := range g.leaves {
				gn.Update = append(gn.Update, &gnmi.Update{Path: &gnmi.Path{Elem: []*gnmi.PathElem{{Name: l.Path[len(l.Path)-1].Name}}}, Val: val(l, ietf)})
			}
			out = append(out, utils.ToSchemaNotification(gn))
		}
	case "gnmi-typed-flat":
		gn := &gnmi.Notification{}
		for _, l := range all {
			gn.Update = append(gn.Update, &gnmi.Update{Path: toGnmiPath(l.Path), Val: val(l, false)})
		}
		out = append(out, utils.ToSchemaNotification(gn))
	case "netconf-xml":
		doc := etree.NewDocument()
		data := doc.CreateElement("data")
		var ensure func(p world.Path) *etree.Element
		elems := map[string]*etree.Element{}
		ensure = func(p world.Path) *etree.Element {
			if len(p) == 0 {
				return data
			}
			if e, ok := elems[p.String()]; ok {
				return e
			}
			parent := ensure(p[:len(p)-1])
			pe := p[len(p)-1]
			e := parent.CreateElement(pe.Name)
			n := si.Node(p)
			pn := si.Node(p[:len(p)-1])
			if len(p) == 1 || (pn != nil && n != nil && pn.Namespace != n.Namespace) {
				e.CreateAttr("xmlns", n.Namespace)
			}
			if n != nil && n.Kind == world.KList {
				for _, k := range n.Keys {
					e.CreateElement(k).SetText(pe.Keys[k])
				}
			}
			elems[p.String()] = e
			return e
		}
		// presence containers first (as elements of their own)
		for _, k := range st.Keys() {
			if n := si.Node(st[k].Path); n != nil && n.Kind == world.KContainer {
				ensure(st[k].Path)
			}
		}
		for _, l := range all {
			if l.Node.IsKeyLeaf() {
				ensure(l.Path[:len(l.Path)-1])
				continue
			}
			parent := ensure(l.Path[:len(l.Path)-1])
			name := l.Path[len(l.Path)-1].Name
			mk := func(text string) {
				e := parent.CreateElement(name)
				if pn := si.Node(l.Path[:len(l.Path)-1]); pn != nil && pn.Namespace != l.Node.Namespace {
					e.CreateAttr("xmlns", l.Node.Namespace)
				}
				if text != "" {
					e.SetText(text)
				}
			}
			if l.Node.Kind == world.KLeafList {
				if l.Lex != "" {
					for _, x := range strings.Split(l.Lex, ",") {
						mk(x)
					}
				}
			} else {
				mk(l.Lex)
			}
		}
		drv := world.NewNCDriver(nil)
		drv.GetConfigFn = func(string, string) (*etree.Document, error) { return doc, nil }
		cfg := &config.SBI{Type: "netconf", NetconfOptions: &config.SBINetconfOptions{CommitDatastore: "candidate", IncludeNS: true}}
		tgt := target.VerifNewNCTarget("dev", cfg, w.DS.VerifSchemaClientBound(), drv)
		var paths []*sdcpb.Path
		for _, c := range si.Nodes[""].Children {
			paths = append(paths, world.P(world.E(c)).ToSdcpb())
		}
		rsp, err := tgt.Get(context.Background(), &sdcpb.GetDataRequest{Path: paths, Datastore: &sdcpb.DataStore{Type: sdcpb.Type_MAIN}})
		if err != nil {
			return nil, err
		}
		out = rsp.GetNotification()
	default:
		return nil, fmt.Errorf("unknown style %s", style)
	}
	return out, nil
}
