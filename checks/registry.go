package checks

import (
	"sort"

	"verif/sim"
)

var registry = map[string]*sim.Check{}

func Register(c *sim.Check) { registry[c.ID] = c }

func Get(id string) *sim.Check { return registry[id] }

func IDs() []string {
	ids := make([]string, 0, len(registry))
	for k := range registry {
		ids = append(ids, k)
	}
	sort.Strings(ids)
	return ids
}
