#!/usr/bin/env python3
"""usage: seednote.py <TAG> <caught_by text> : records detection + confirmation in seeded/<TAG>/meta.json"""
import json, sys
tag, caught = sys.argv[1], sys.argv[2]
p = f'/verif/seeded/{tag}/meta.json'
m = json.load(open(p))
m['caught_by'] = caught
m['confirmed'] = "seedconfirm.sh: builds; existing tests pass with the change (demo moved aside); demonstration fails with the change and passes without it. seedtest.sh: patch applied to /repo with git apply, checks run, reverted with git checkout."
m['demo_file'] = (m.get('demo_file') or '') + " (stored here with suffix .txt so that it is not compiled as part of /verif)"
json.dump(m, open(p, 'w'), indent=1)
