package world

import (
	"fmt"
	"sort"
	"strings"

	"github.com/beevik/etree"
)

// NCFront is the NETCONF device front end of the history checks: the REAL ncTarget (hook VerifNewNCTarget) drives the
// in-process netconf.Driver, whose edit-config documents are decoded with the harness's own schema-driven XML decoder and
// applied to the abstract device state under NETCONF semantics (default operation merge; candidate + commit, or running).
// A document the device cannot decode is refused as a whole. The record of a Set carries, for the oracles that compare
// responses, the updates / deletes of the proto view of the same tree (taken from the shadow device, which is handed the
// tree first); the device STATE is what the XML document did.
type NCFront struct {
	Dev    *Device
	Shadow *Device
	Drv    *NCDriver
	// rendering options the target was configured with (the decoder checks the document against them)
	NS, OpNS, Remove bool

	pending      *SetRecord
	pendingState DevState
}

func NewNCFront(dev, shadow *Device, ns, opNS, remove bool) *NCFront {
	f := &NCFront{Dev: dev, Shadow: shadow, NS: ns, OpNS: opNS, Remove: remove}
	f.Drv = NewNCDriver(nil)
	f.Drv.OnEdit = f.onEdit
	f.Drv.OnCommit = f.onCommit
	f.Drv.OnDiscard = func() {
		if f.pending != nil {
			dev.logf("DEVICE(netconf) set#%d discarded", f.pending.Seq)
		}
		f.pending, f.pendingState = nil, nil
	}
	return f
}

func replaceState(dst, src DevState) {
	for k := range dst {
		delete(dst, k)
	}
	for k, v := range src {
		dst[k] = v
	}
}

func (f *NCFront) onEdit(target, doc string) error {
	d := f.Dev
	idx := len(d.Sets)
	if d.Hook != nil {
		if err := d.Hook(idx); err != nil {
			return err
		}
	}
	rec := &SetRecord{Seq: idx, EncErr: map[string]string{}, Wire: "netconf"}
	if f.Shadow != nil && len(f.Shadow.Sets) > 0 {
		sh := f.Shadow.Sets[len(f.Shadow.Sets)-1]
		rec.Updates, rec.Deletes = sh.Updates, sh.Deletes
	}
	prior := d.State.Clone()
	st, iss := d.SI.ApplyXML(prior, doc, f.NS, f.OpNS, f.Remove)
	if d.NextFault != nil {
		rec.Fault = d.NextFault(idx)
	}
	d.Sets = append(d.Sets, rec)
	// the order of sibling elements of different names follows Go map iteration inside data-server: log a canonical form
	for _, l := range strings.Split(canonicalXML(doc), "\n") {
		d.logf("DEVICE(netconf) set#%d edit-config(%s) %s", idx, target, l)
	}
	if len(iss.Items) > 0 {
		rec.WireErr = strings.Join(iss.Items, "; ")
		d.logf("DEVICE(netconf) set#%d refused: %s", idx, rec.WireErr)
		return fmt.Errorf("vsim device cannot accept the document: %s", rec.WireErr)
	}
	d.logf("DEVICE(netconf) set#%d fault=%s", idx, rec.Fault)
	switch rec.Fault {
	case DevReject:
		return ErrDevReject
	case DevUnreachable:
		return ErrDevUnreachable
	}
	if target == "running" {
		replaceState(d.State, st)
		rec.Applied = true
		if rec.Fault == DevLostReply {
			return ErrDevLostReply
		}
		return nil
	}
	f.pending, f.pendingState = rec, st
	return nil
}

func (f *NCFront) onCommit() error {
	if f.pending == nil {
		return nil
	}
	rec := f.pending
	replaceState(f.Dev.State, f.pendingState)
	rec.Applied = true
	f.pending, f.pendingState = nil, nil
	f.Dev.logf("DEVICE(netconf) set#%d committed", rec.Seq)
	if rec.Fault == DevLostReply {
		return ErrDevLostReply
	}
	return nil
}

// canonicalXML renders the document with the child elements of every element stably sorted by tag (siblings of one tag,
// i.e. list entries and leaf-list values, keep their order).
func canonicalXML(doc string) string {
	d := etree.NewDocument()
	if err := d.ReadFromString(doc); err != nil {
		return strings.TrimSpace(doc)
	}
	var rec func(e *etree.Element)
	rec = func(e *etree.Element) {
		kids := e.ChildElements()
		if len(kids) == 0 {
			return
		}
		for _, k := range kids {
			rec(k)
			e.RemoveChild(k)
		}
		sort.SliceStable(kids, func(i, j int) bool { return kids[i].Tag < kids[j].Tag })
		for _, k := range kids {
			e.AddChild(k)
		}
	}
	rec(&d.Element)
	out, err := d.WriteToString()
	if err != nil {
		return strings.TrimSpace(doc)
	}
	return strings.TrimSpace(out)
}
