package checks

import (
	"fmt"
	"sort"
	"strings"

	"verif/sim"
	"verif/world"
)

// OracleC08: per choice instance the device holds nodes of at most one case, and it is the winning one.
func OracleC08(rc *sim.RunCtx, w *world.World, m *Model, pre *Model, step int, tx *TxSpec) {
	winners := m.choiceWinners()
	prev := map[string]string{}
	if pre != nil {
		prev = pre.choiceWinners()
	}
	inTx := map[string]bool{}
	for _, is := range tx.Intents {
		inTx[is.Name] = true
	}
	// takeover: the winning case changed to a case whose contributions all come from intents outside the transaction
	takeover := func(key string) bool {
		wn := winners[key]
		if wn == "" || prev[key] == wn {
			return false
		}
		for _, n := range m.LiveNames() {
			if !inTx[n] {
				continue
			}
			for _, l := range m.Live[n].Leaves {
				for i := range l.Path {
					node := w.SI.Node(l.Path[:i+1])
					if node != nil && node.Choice != "" && l.Path[:i].String()+"|"+node.Choice == key && node.Case == wn {
						return false
					}
				}
			}
		}
		return true
	}
	for key := range winners {
		if takeover(key) {
			rc.Probe("choice-takeover")
			if strings.Contains(key, "[") {
				rc.Probe("choice-takeover-in-list")
			}
		}
	}
	// cases present on the device per choice instance
	present := map[string]map[string][]string{}
	for k, l := range w.Dev.State {
		for i := range l.Path {
			node := w.SI.Node(l.Path[:i+1])
			if node == nil || node.Choice == "" {
				continue
			}
			key := l.Path[:i].String() + "|" + node.Choice
			if present[key] == nil {
				present[key] = map[string][]string{}
			}
			present[key][node.Case] = append(present[key][node.Case], k)
		}
	}
	keys := make([]string, 0, len(present))
	for k := range present {
		keys = append(keys, k)
	}
	sort.Strings(keys)
	for _, key := range keys {
		cases := present[key]
		names := make([]string, 0, len(cases))
		for c := range cases {
			names = append(names, c)
		}
		sort.Strings(names)
		f := map[string]string{"choice": key, "cases": strings.Join(names, "+"), "winner": winners[key], "edits": renderEdits(tx), "in_list": fmt.Sprint(strings.Contains(key, "[")), "takeover": fmt.Sprint(takeover(key))}
		if len(names) > 1 {
			rc.Report(sim.Item{Prop: "C08", Clause: "C08.two-cases", Step: step, Fields: f,
				Detail: fmt.Sprintf("device holds nodes of %d cases of choice %s: %v", len(names), key, cases)})
			continue
		}
		if wn, ok := winners[key]; ok && wn != names[0] {
			rc.Report(sim.Item{Prop: "C08", Clause: "C08.wrong-case", Step: step, Fields: f,
				Detail: fmt.Sprintf("device holds case %s of %s but the highest-precedence live contribution is in case %s", names[0], key, wn)})
		}
	}
}

func runC08(rc *sim.RunCtx) {
	h, err := NewHist(rc, HistOpts{Profiles: []string{"choice"}, MinTx: 2, MaxTx: 9,
		// orphan deletes: the orphaned intent is no longer live, so its case only stays on the device while no live intent
		// contributes to another case of the choice (the oracle names a winner only among live contributions)
		Allowed: map[string]bool{"create": true, "change": true, "grow": true, "shrink": true, "reprio": true, "delete": true, "resubmit": true, "orphan": true},
		Oracles: map[string]bool{"C01": true, "C02": true}})
	if err != nil {
		rc.HarnessErr("world: %v", err)
		return
	}
	defer h.W.Close()
	h.Cfg.FormW = []int{4, 1, 0, 0}
	h.Ops.AfterStep = func(h *Hist, step int, tx *TxSpec, res *TxResult) {
		if !res.Accepted() || tx.DryRun {
			return
		}
		OracleC08(rc, h.W, h.M, h.Pre, step, tx)
		// probes: how many choice instances have >= 2 cases contributed by live intents
		contrib := map[string]map[string]bool{}
		for _, n := range h.M.LiveNames() {
			for _, l := range h.M.Live[n].Leaves {
				for i := range l.Path {
					node := h.W.SI.Node(l.Path[:i+1])
					if node != nil && node.Choice != "" {
						k := l.Path[:i].String() + "|" + node.Choice
						if contrib[k] == nil {
							contrib[k] = map[string]bool{}
						}
						contrib[k][node.Case] = true
					}
				}
			}
		}
		for _, cs := range contrib {
			if len(cs) >= 2 {
				rc.Probe("contended-choice")
				rc.NonTrivial()
			}
		}
	}
	n := tierLen(rc, h.Ops)
	for s := 0; s < n; s++ {
		h.AdvanceClock()
		h.Step(s)
	}
	// "namely the case holding the highest-precedence contribution": what the merge-model oracle reports about a node
	// inside a choice member (the winning case is missing on the device or carries a wrong value) is judged here
	out := rc.Out()
	for i := range out.Items {
		it := &out.Items[i]
		if it.Prop != "C01" || (it.Clause != "C01.missing" && it.Clause != "C01.wrong-value") {
			continue
		}
		p := mustPath(h.W, it.Fields["path"])
		inChoice, inList := false, false
		for j := range p {
			if node := h.W.SI.Node(p[:j+1]); node != nil && node.Choice != "" {
				inChoice = true
				if strings.Contains(p[:j].String(), "[") {
					inList = true
				}
			}
		}
		if !inChoice {
			continue
		}
		it.Prop = "C08"
		it.Clause = "C08.winning-case-" + strings.TrimPrefix(it.Clause, "C01.")
		it.Fields["in_list"] = fmt.Sprint(inList)
		// the value is owed by an intent outside the transaction (its case took over, or a shadowing value went away)
		it.Fields["ruler_in_tx"] = fmt.Sprint(it.Fields["ruler_edit"] != "")
	}
}

func init() {
	Register(&sim.Check{
		ID: "C08", Level: "exploration", Run: runC08,
		Rule: "C01 histories over the choice profile of vsim: a top-level choice with a two-leaf case, a container case and a list case, a choice inside list entries with a nested choice, plus non-member siblings whose names start with a member's name (alphabet, betamax); several owners with distinct priorities populate different cases, are changed, re-prioritised and removed in any order, 1-3 per transaction. After every accepted transaction: per choice instance at most one case on the device and it is the case of the highest-precedence live contribution (choice-aware merge model); what the merge-model oracle reports about nodes inside a choice member (winning case missing / wrong value, e.g. after a takeover by the case of an intent outside the transaction) is judged as C08.winning-case-*. Non-trivial = some choice instance has live contributions in >=2 cases; distinct = C01 signature.",
		Real: realCore, Stub: stubCore,
		RequiredProbes: []string{"contended-choice", "ruler-changed", "choice-takeover"},
		QuickSeconds:   30, ThoroughSeconds: 480,
	})
}
