package checks

import (
	"fmt"
	"regexp"
	"sort"
	"strings"
	"time"

	"verif/sim"
	"verif/world"
)

var reHex = regexp.MustCompile(`0x[0-9a-f]+`)

func normMsgs(m map[string][]string) []string {
	var out []string
	for owner, es := range m {
		for _, e := range es {
			out = append(out, owner+": "+reHex.ReplaceAllString(e, "0x?"))
		}
	}
	sort.Strings(out)
	return out
}

// runC17: the same history is applied to two worlds that differ only in Validation.DisableConcurrency; every
// transaction's verdict (error/warning sets) must be identical, and identical over repetitions of the dry run.
func runC17(rc *sim.RunCtx) {
	t := rc.T
	si, err := world.LoadSchema()
	if err != nil {
		rc.HarnessErr("schema: %v", err)
		return
	}
	wc, err := world.New(rc, world.Opts{DisableConcurrency: false})
	if err != nil {
		rc.HarnessErr("world: %v", err)
		return
	}
	defer wc.Close()
	ws, err := world.New(rc, world.Opts{DisableConcurrency: true})
	if err != nil {
		rc.HarnessErr("world: %v", err)
		return
	}
	defer ws.Close()
	cfg := SwarmCfg(t, "constraints", map[string]bool{"create": true, "change": true, "grow": true, "shrink": true, "delete": true, "reprio": true, "resubmit": true})
	cfg.FormW = []int{4, 1, 0, 0}
	cfg.InvalidPct = []int{5, 15, 30}[t.Choose(3)]
	g := NewGen(t, si, cfg)
	m := NewModel(si)
	// running values that validators have to load lazily (leafref targets, must operands)
	seed := []*MLeaf{NewMLeaf(si, world.P(world.E("k1", "name", "c"), world.E("val")), "v1"), NewMLeaf(si, world.P(world.E("sys"), world.E("hostname")), "h9")}
	if t.Bool(1, 2) {
		var ls []*world.Leaf
		for _, l := range Closure(si, seed) {
			ls = append(ls, &world.Leaf{Path: l.Path, Abs: l.Abs, TV: MkTV(l.Node, l.Lex, "typed")})
		}
		sort.Slice(ls, func(i, j int) bool { return ls[i].Path.String() < ls[j].Path.String() })
		wc.SeedRunning(ls)
		ws.SeedRunning(ls)
		rc.Probe("lazy-load-candidates")
	}
	n := 2 + t.Choose(7)
	if rc.Tier == "thorough" {
		n = 2 + t.Choose(14)
	}
	reps := 3
	for step := 0; step < n; step++ {
		time.Sleep(time.Second)
		rc.AddSim(1)
		tx := g.GenTx(m)
		if tx == nil {
			continue
		}
		rc.Step()
		rc.Scenario("%d: %s", step, tx.Render())
		// dry runs: sequential reference, then repeated concurrent runs
		dry := *tx
		dry.DryRun = true
		dry.ID = tx.ID + "-seq"
		ref := ExecTx(rc, ws, &dry, 5*time.Second)
		refMsgs := normMsgs(ref.IntentErrors)
		refErr := ref.Err != nil
		for r := 0; r < reps; r++ {
			d := *tx
			d.DryRun = true
			d.ID = fmt.Sprintf("%s-con%d", tx.ID, r)
			got := ExecTx(rc, wc, &d, 5*time.Second)
			gm := normMsgs(got.IntentErrors)
			if (got.Err != nil) != refErr || strings.Join(gm, "\n") != strings.Join(refMsgs, "\n") {
				a, b := diffSets(refMsgs, gm)
				rc.Report(sim.Item{Prop: "C17", Clause: "C17.verdict-differs", Step: step, Fields: map[string]string{"repetition": fmt.Sprint(r), "edits": renderEdits(tx)},
					Detail: fmt.Sprintf("sequential validation: err=%t %v; concurrent validation (repetition %d): err=%t; only sequential: %v; only concurrent: %v", refErr, refMsgs, r, got.Err != nil, a, b)})
				return
			}
		}
		if len(refMsgs) > 0 {
			rc.Probe("invalid-step")
			rc.NonTrivial()
		}
		rc.SigAdd(fmt.Sprintf("%s|%d", renderEdits(tx), len(refMsgs)))
		// apply for real to both worlds if valid
		if !refErr && len(refMsgs) == 0 {
			r1 := ExecTx(rc, ws, tx, 5*time.Second)
			t2 := *tx
			r2 := ExecTx(rc, wc, &t2, 5*time.Second)
			ws.NoteTimer(30 * time.Second)
			wc.NoteTimer(30 * time.Second)
			if r1.Accepted() != r2.Accepted() {
				rc.Report(sim.Item{Prop: "C17", Clause: "C17.verdict-differs", Step: step, Fields: map[string]string{"repetition": "apply", "edits": renderEdits(tx)}, Detail: fmt.Sprintf("sequential accepted=%t, concurrent accepted=%t", r1.Accepted(), r2.Accepted())})
				return
			}
			if r1.Accepted() {
				Confirm(rc, ws, tx.ID)
				Confirm(rc, wc, tx.ID)
				m.Accept(tx)
			}
		}
	}
}

func init() {
	Register(&sim.Check{
		ID: "C17", Level: "exploration", Run: runC17,
		Rule: "the same generated history over the constraints profile (leafrefs into sibling lists, must across siblings and branches, defaults, running values seeded so that validators load them lazily) is applied to two worlds that differ only in Validation.DisableConcurrency; every transaction is first validated as a dry run once sequentially and three times concurrently: the normalised error/warning sets must be identical. The quick tier runs this on the normal build (verdict determinism); the thorough tier rebuilds the simulator with the Go race detector (-race) and reports any DATA RACE printed by a worker whose stack touches pkg/tree or the schema client (arm B: runtime monitoring of uncontrolled schedules, inputs replay exactly, interleavings do not). Non-trivial = a step with validation messages; distinct = signature.",
		Real: realCore, Stub: stubCore,
		Assume:           []string{"goroutine interleavings inside RootEntry.Validate are those the Go scheduler produces (GOMAXPROCS of the host); they are not seeded - the deterministic yield-point arm of DESIGN was not built (see DESIGN §4 C17)"},
		NonDeterministic: true,
		RequiredProbes:   []string{"invalid-step", "lazy-load-candidates"},
		QuickSeconds:     30, ThoroughSeconds: 420,
	})
}
