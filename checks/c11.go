package checks

import (
	"fmt"
	"sort"
	"strings"

	sdcpb "github.com/sdcio/sdc-protos/sdcpb"

	"github.com/sdcio/data-server/pkg/utils"

	"verif/sim"
	"verif/world"
)

// pathTraits classifies an instance path for C11 items.
func pathTraits(si *world.SchemaInfo, p world.Path) (nonAlpha, special bool) {
	for i, e := range p {
		if n := si.Node(p[:i+1]); n != nil && n.Kind == world.KList && !sort.StringsAreSorted(n.Keys) {
			nonAlpha = true
		}
		for _, v := range e.Keys {
			if strings.ContainsAny(v, "/_:= []") {
				special = true
			}
		}
	}
	return
}

func runC11(rc *sim.RunCtx) {
	h, err := NewHist(rc, HistOpts{Profiles: []string{"adversarial"}, MinTx: 2, MaxTx: 8,
		Allowed: map[string]bool{"create": true, "change": true, "grow": true, "shrink": true, "reprio": true, "delete": true, "resubmit": true},
		Oracles: map[string]bool{"C01": true, "C02": true}})
	if err != nil {
		rc.HarnessErr("world: %v", err)
		return
	}
	w := h.W
	defer w.Close()
	h.Cfg.FormW = []int{4, 1, 0, 0}
	h.Ops.AfterStep = func(h *Hist, step int, tx *TxSpec, res *TxResult) {
		// pure round trips on every path that flows through the run
		for _, is := range tx.Intents {
			for _, l := range is.Leaves {
				sp := l.Path.ToSdcpb()
				na, spc := pathTraits(w.SI, l.Path)
				f := map[string]string{"path": l.Path.String(), "nonalpha": fmt.Sprint(na), "special": fmt.Sprint(spc)}
				if na {
					rc.Probe("nonalpha-key-path")
				}
				if spc {
					rc.Probe("special-char-key")
				}
				// ToPath(ToStrings(p)) through the real bound schema client
				strs := utils.ToStrings(sp, false, false)
				back, err := w.DS.VerifSchemaClientBound().ToPath(w.Ctx, strs)
				if err != nil || !world.FromSdcpb(back).Equal(l.Path) {
					got := "error"
					if err == nil {
						got = world.FromSdcpb(back).String()
					}
					rc.Report(sim.Item{Prop: "C11", Clause: "C11.topath-tostrings", Step: step, Fields: f, Detail: fmt.Sprintf("ToPath(ToStrings(%s)) = %s", l.Path, got)})
				}
				// ParsePath(ToXPath(p))
				xp := utils.ToXPath(sp, false)
				pp, err := utils.ParsePath(xp)
				if err != nil || !world.FromSdcpb(pp).Equal(l.Path) {
					got := "error: " + fmt.Sprint(err)
					if err == nil {
						got = world.FromSdcpb(pp).String()
					}
					rc.Report(sim.Item{Prop: "C11", Clause: "C11.parsepath-toxpath", Step: step, Fields: f, Detail: fmt.Sprintf("ParsePath(%q) = %s, original %s", xp, got, l.Path)})
				}
			}
		}
		if res.Accepted() {
			rc.NonTrivial()
		}
	}
	n := tierLen(rc, h.Ops)
	for s := 0; s < n; s++ {
		h.AdvanceClock()
		h.Step(s)
	}
	// every model discrepancy under this profile is a path-representation item
	out := rc.Out()
	for i := range out.Items {
		it := &out.Items[i]
		if it.Prop == "C01" || it.Prop == "C02" {
			ps := it.Fields["path"]
			na, spc := false, false
			if ps != "" {
				na, spc = pathTraits(w.SI, mustPath(w, ps))
			}
			it.Clause = "C11." + strings.ToLower(it.Prop) + "-" + strings.SplitN(it.Clause, ".", 2)[1]
			it.Prop = "C11"
			if it.Fields == nil {
				it.Fields = map[string]string{}
			}
			if _, given := it.Fields["nonalpha"]; !given || ps != "" {
				it.Fields["nonalpha"] = fmt.Sprint(na)
			}
			it.Fields["special"] = fmt.Sprint(spc)
		}
	}
	_ = sdcpb.Encoding_STRING
}

func init() {
	Register(&sim.Check{
		ID: "C11", Level: "exploration", Run: runC11,
		Rule: "C01/C02 histories over the adversarial profile of vsim: list key values that extend one another or contain the separators used internally (a, ab, 'a/b_c'), siblings whose names are prefixes of one another (k1/k1x, sys/ext vs sys/extleaf, ch/alphabet, ch/betamax), lists with 2 and 3 keys declared in non-alphabetical order (k2 'b a', k3 'z m a'). Every instance path the client uses is followed through request -> tree -> cache key -> device (proto view) -> response and compared structurally (element names + key name/value maps) by the merge-model and store oracles; additionally ToPath(ToStrings(p)) through the real bound schema client and ParsePath(ToXPath(p)) are asserted on every path that flows through the run. Items carry nonalpha/special classification. (GetData on such paths is covered by C14 over the same adversarial profile.) Non-trivial = accepted transaction; distinct = C01 signature.",
		Real: realCore, Stub: stubCore,
		Assume:         []string{"the pure converter round trips are only evaluated on paths the simulation produces (not a cross product): see MANIFEST level_note"},
		RequiredProbes: []string{"nonalpha-key-path", "special-char-key"},
		QuickSeconds:   30, ThoroughSeconds: 420,
	})
}
