#!/bin/bash
# usage: seedkeep.sh <TAG> : copies the confirmed change of worktree /tmp/seed-<TAG> into /verif/seeded/<TAG>/ (patch.diff, demo, meta.json)
set -e
tag=$1; wt=/tmp/seed-$tag; out=/tmp/seed-out/$tag; dst=/verif/seeded/$tag
mkdir -p $dst
git -C $wt diff > $dst/patch.diff
for f in $(git -C $wt status --porcelain | grep '^??' | awk '{print $2}' | grep _test.go); do cp $wt/$f $dst/$(basename $f).txt; done
cp $out/meta.json $dst/meta.json
ls -la $dst
