package checks

import (
	"context"
	"fmt"
	"strings"
	"time"

	"github.com/beevik/etree"
	sdcpb "github.com/sdcio/sdc-protos/sdcpb"

	"github.com/sdcio/data-server/pkg/config"
	"github.com/sdcio/data-server/pkg/datastore/target"

	"verif/sim"
	"verif/world"
)

// docSource hands a captured XML change document (one per option combination) to the real ncTarget.
type docSource struct {
	xml map[string]string
}

func comboName(ns, opns, remove bool) string {
	b := func(x bool) string {
		if x {
			return "1"
		}
		return "0"
	}
	op := "del"
	if remove {
		op = "rem"
	}
	return "ns" + b(ns) + "-op" + b(opns) + "-" + op
}

func (d *docSource) ToXML(onlyNew, ns, opns, remove bool) (*etree.Document, error) {
	doc := etree.NewDocument()
	s := d.xml[comboName(ns, opns, remove)]
	if strings.TrimSpace(s) != "" {
		if err := doc.ReadFromString(s); err != nil {
			return nil, err
		}
	}
	return doc, nil
}
func (d *docSource) ToJson(bool) (any, error)     { return nil, nil }
func (d *docSource) ToJsonIETF(bool) (any, error) { return nil, nil }
func (d *docSource) ToProtoUpdates(context.Context, bool) ([]*sdcpb.Update, error) {
	return nil, nil
}
func (d *docSource) ToProtoDeletes(context.Context) ([]*sdcpb.Path, error) { return nil, nil }

type c18case struct {
	name   string
	faults map[string]string // "edit-config#0" -> "rpc"|"eof"
}

func c18cases(ds string) []c18case {
	if ds == "running" {
		return []c18case{
			{"ok", nil},
			{"edit-rpc-error", map[string]string{"edit-config#0": "rpc"}},
			{"edit-eof", map[string]string{"edit-config#0": "eof"}},
		}
	}
	return []c18case{
		{"ok", nil},
		{"edit-rpc-error", map[string]string{"edit-config#0": "rpc"}},
		{"edit-eof", map[string]string{"edit-config#0": "eof"}},
		{"edit-rpc-error+discard-error", map[string]string{"edit-config#0": "rpc", "discard#0": "rpc"}},
		{"edit-rpc-error+discard-eof", map[string]string{"edit-config#0": "rpc", "discard#0": "eof"}},
		{"commit-error", map[string]string{"commit#0": "rpc"}},
		{"commit-eof", map[string]string{"commit#0": "eof"}},
		{"commit-error+discard-error", map[string]string{"commit#0": "rpc", "discard#0": "rpc"}},
	}
}

func runC18(rc *sim.RunCtx) {
	h, err := NewHist(rc, HistOpts{Profiles: []string{"core", "presence", "choice"}, MinTx: 2, MaxTx: 5, Capture: true, Oracles: map[string]bool{}})
	if err != nil {
		rc.HarnessErr("world: %v", err)
		return
	}
	h.W.NoFlush = true
	defer h.W.Close()
	n := tierLen(rc, h.Ops)
	for s := 0; s < n; s++ {
		h.Step(s)
	}
	// one empty document plus captured change documents
	type capt struct {
		kind string
		xml  map[string]string
	}
	docs := []capt{{"empty", map[string]string{}}}
	for _, rec := range h.W.Dev.Sets {
		if len(rec.XML) == 0 {
			continue
		}
		kind := "mixed"
		switch {
		case len(rec.Updates) == 0 && len(rec.Deletes) == 0:
			kind = "empty"
		case len(rec.Deletes) == 0:
			kind = "updates"
		case len(rec.Updates) == 0:
			kind = "deletes"
		}
		docs = append(docs, capt{kind, rec.XML})
	}
	max := 3
	if rc.Tier == "thorough" {
		max = 8
	}
	for len(docs) > max {
		i := 1 + rc.T.Choose(len(docs)-1)
		docs = append(docs[:i], docs[i+1:]...)
	}
	scb := h.W.DS.VerifSchemaClientBound()
	ctx := context.Background()
	for di, d := range docs {
		for _, ds := range []string{"candidate", "running"} {
			for _, combo := range xmlCombosList {
				for _, cs0 := range c18cases(ds) {
					for _, warn := range []bool{false, true} {
						cs := cs0
						if warn {
							cs.name += "+edit-warning"
						}
						cfg := &config.SBI{Type: "netconf", Address: "127.0.0.1", Port: 1, ConnectRetry: 24 * time.Hour, Timeout: time.Second,
							NetconfOptions: &config.SBINetconfOptions{IncludeNS: combo.ns, OperationWithNamespace: combo.opns, UseOperationRemove: combo.remove, CommitDatastore: ds}}
						drv := world.NewNCDriver(nil)
						drv.WarnOnEdit = warn
						drv.Fault = func(call string, n int) string { return cs.faults[fmt.Sprintf("%s#%d", call, n)] }
						tgt := target.VerifNewNCTarget("dev", cfg, scb, drv)
						_, err := tgt.Set(ctx, &docSource{xml: d.xml})
						rc.Step()
						rc.Fault(cs.name)
						doc := d.xml[comboName(combo.ns, combo.opns, combo.remove)]
						empty := strings.TrimSpace(doc) == ""
						calls := strings.Join(drv.Calls, ",")
						calls = strings.ReplaceAll(calls, ",close", "")
						rc.SigAdd(fmt.Sprintf("%s|%s|%s|%t|%s", ds, cs.name, d.kind, empty, calls))
						rc.NonTrivial()
						f := map[string]string{"datastore": ds, "case": cs.name, "doc": d.kind, "combo": comboName(combo.ns, combo.opns, combo.remove), "calls": calls}
						rc.Logf("C18 doc#%d %s %s %s %s -> calls=[%s] err=%t", di, d.kind, ds, f["combo"], cs.name, calls, err != nil)
						rep := func(clause, detail string) {
							rc.Report(sim.Item{Prop: "C18", Clause: clause, Fields: f, Detail: detail + " (driver calls: " + calls + ")"})
						}
						if empty {
							if len(drv.Calls) != 0 {
								rep("C18.empty-document-sent", "there is no change but the driver was called")
							}
							if err != nil {
								rep("C18.empty-document-error", "no change must not fail: "+normErr(err))
							}
							continue
						}
						switch {
						case cs0.name == "ok" && ds == "candidate":
							if err != nil {
								rep("C18.success-reported-as-error", normErr(err))
							}
							if calls != "edit-config(candidate),commit" {
								rep("C18.success-sequence", "expected exactly edit-config(candidate) then commit")
							}
						case cs0.name == "ok" && ds == "running":
							if err != nil {
								rep("C18.success-reported-as-error", normErr(err))
							}
							if calls != "edit-config(running)" {
								rep("C18.success-sequence", "expected exactly one edit-config(running)")
							}
						default:
							if err == nil {
								rep("C18.failure-not-reported", "the driver failed but Set returned success")
							}
							if strings.Count(calls, "commit") > 0 && strings.HasPrefix(cs.name, "edit-") {
								rep("C18.commit-after-edit-failure", "commit was sent although edit-config failed")
							}
							if strings.Count(calls, "edit-config") != 1 || strings.Count(calls, "commit") > 1 {
								rep("C18.repeated-call", "edit-config / commit must not be repeated")
							}
							if ds == "candidate" && !drv.Dead {
								// connection alive: the candidate must have been discarded before the error is returned,
								// unless the discard itself was made to fail
								discardFails := strings.Contains(cs.name, "discard-")
								if !strings.Contains(calls, "discard") {
									rep("C18.no-discard", "edit-config or commit failed on a live connection and no discard-changes was sent before returning the error")
								} else if !discardFails && len(drv.Pending) != 0 {
									rep("C18.leftover-candidate", "candidate still holds uncommitted edits after the failure")
								}
								if !discardFails && !strings.Contains(calls, "discard") && len(drv.Pending) != 0 {
									rep("C18.leftover-candidate", "candidate still holds uncommitted edits after the failure")
								}
							}
							if ds == "running" && strings.Contains(calls, "commit") {
								rep("C18.commit-on-running", "direct-to-running target must not commit")
							}
						}
					}
				}
			}
		}
	}
}

var xmlCombosList = []struct {
	ns, opns, remove bool
}{{false, false, false}, {false, false, true}, {false, true, false}, {false, true, true}, {true, false, false}, {true, false, true}, {true, true, false}, {true, true, true}}

func init() {
	Register(&sim.Check{
		ID: "C18", Level: "fault_enumeration", Run: runC18, NoBubble: true,
		Rule:         "per run: a short generated history is executed on the direct device which captures the 8 XML change documents of every Set (real tree, real ToXML); for up to 3 (thorough 8) of these documents plus the empty one, the real ncTarget.Set is driven around an in-process netconf.Driver for both commit-datastore settings x the 8 option combinations x every failure point of the driver call sequence (edit-config rpc-error, edit-config EOF, commit error, commit EOF, each combined with a failing or dying discard, each with and without rpc-error warnings in the edit-config reply) - this finite space is enumerated completely per document. Oracle over the recorded driver calls and the fake device's candidate. Distinct = (datastore, failure case, document kind, call sequence).",
		Real:         []string{"pkg/datastore/target/nc.go (Set, setCandidate, setRunning) via VerifNewNCTarget", "pkg/tree ToXML on trees built by the real transaction pipeline", "pkg/datastore, pkg/tree, cache, schema store (to produce the documents)"},
		Stub:         []string{"netconf.Driver (in-process, records calls, candidate/running as lists of accepted edits, per-call failure injection)", "reconnect() after a dead connection dials 127.0.0.1:1 and then sleeps 24h (real goroutine, not judged)"},
		Assume:       []string{"an edit-config that errors leaves its target datastore unchanged (atomic edit)", "runs outside the synctest bubble because reconnect() dials a real socket"},
		QuickSeconds: 25, ThoroughSeconds: 300,
	})
}
