package checks

import (
	"fmt"
	"sort"
	"strings"

	"verif/sim"
	"verif/world"
)

func diffSets(a, b []string) (onlyA, onlyB []string) {
	ma, mb := map[string]bool{}, map[string]bool{}
	for _, x := range a {
		ma[x] = true
	}
	for _, x := range b {
		mb[x] = true
	}
	for _, x := range a {
		if !mb[x] {
			onlyA = append(onlyA, x)
		}
	}
	for _, x := range b {
		if !ma[x] {
			onlyB = append(onlyB, x)
		}
	}
	sort.Strings(onlyA)
	sort.Strings(onlyB)
	return
}

// relation classifies the textual relation between a path and other paths (A.3).
func relation(p world.Path, others map[string]world.Path) string {
	ps := strings.Join(p.CacheSlice(), ",")
	for _, o := range others {
		if o.String() == p.String() {
			continue
		}
		os := strings.Join(o.CacheSlice(), ",")
		if strings.HasPrefix(ps, os) || strings.HasPrefix(os, ps) {
			// ancestor/descendant in the structural sense does not count
			if !p.HasPrefix(o) && !o.HasPrefix(p) {
				return "string-prefix"
			}
		}
	}
	return "none"
}

// OracleC01 compares the device state with the merge model (DESIGN C01 / A.1).
func OracleC01(rc *sim.RunCtx, w *world.World, m *Model, step int, tx *TxSpec) {
	winners := m.choiceWinners()
	dev := w.Dev.State.WithImpliedPresence(w.SI)
	all := m.AllPaths(dev)
	keys := make([]string, 0, len(all))
	for k := range all {
		keys = append(keys, k)
	}
	sort.Strings(keys)
	edits := map[string]string{}
	for _, is := range tx.Intents {
		edits[is.Name] = is.Edit
	}
	for _, k := range keys {
		p := all[k]
		exp := m.Expected(p, winners)
		got, present := dev[k]
		f := map[string]string{"path": k, "reason": exp.Reason, "node": p.Keyless()}
		if n := w.SI.Node(p); n != nil && n.Kind == world.KContainer && n.Presence && present && exp.Kind != ExpValue {
			// a presence container implied by existing descendants is judged through those descendants
			if _, explicit := w.Dev.State[k]; !explicit || hasLeafBelow(w.Dev.State, p) {
				continue
			}
		}
		if n := w.SI.Node(p); n != nil && n.IsKeyLeaf() {
			f["keyleaf"] = "true"
		}
		f["edits"] = renderEdits(tx)
		if exp.Reason == "losing-case" {
			// is the choice instance located inside a list entry?
			inList := false
			for i := range p {
				if node := w.SI.Node(p[:i+1]); node != nil && node.Choice != "" && strings.Contains(p[:i].String(), "[") {
					inList = true
				}
			}
			f["in_list"] = fmt.Sprint(inList)
			to := false
			for i := range p {
				if node := w.SI.Node(p[:i+1]); node != nil && node.Choice != "" {
					if m.Takeover(p[:i].String()+"|"+node.Choice, winners, tx) {
						to = true
					}
				}
			}
			f["takeover"] = fmt.Sprint(to)
		}
		for i := 1; i < len(p); i++ {
			if n := w.SI.Node(p[:i]); n != nil && n.Kind == world.KContainer && n.Presence {
				if _, ok := m.Ever[p[:i].String()]; ok {
					f["under_defined_presence"] = "true"
				}
			}
		}
		switch exp.Kind {
		case ExpValue:
			f["ruler"] = exp.Ruler
			f["ruler_edit"] = edits[exp.Ruler]
			f["definers"] = fmt.Sprint(len(m.Definers(k)))
			if !present {
				f["observed"] = "absent"
				f["expected"] = world.NormAbs(exp.Abs)
				rc.Report(sim.Item{Prop: "C01", Clause: "C01.missing", Step: step, Fields: f,
					Detail: fmt.Sprintf("device lacks %s; live intent %s defines %s", k, exp.Ruler, exp.Abs)})
			} else if world.NormAbs(got.Abs) != world.NormAbs(exp.Abs) {
				f["observed"] = world.NormAbs(got.Abs)
				f["expected"] = world.NormAbs(exp.Abs)
				rc.Report(sim.Item{Prop: "C01", Clause: "C01.wrong-value", Step: step, Fields: f,
					Detail: fmt.Sprintf("device has %s=%s; highest-precedence live intent %s defines %s", k, got.Abs, exp.Ruler, exp.Abs)})
			}
		case ExpAbsent:
			if present {
				f["observed"] = world.NormAbs(got.Abs)
				clause := "C01.present-but-dead"
				prop := "C01"
				if exp.Reason == "losing-case" {
					clause, prop = "C08.losing-case-present", "C08"
				}
				rc.Report(sim.Item{Prop: prop, Clause: clause, Step: step, Fields: f,
					Detail: fmt.Sprintf("device still has %s=%s although no live intent defines it (%s)", k, got.Abs, exp.Reason)})
			}
		case ExpR0:
			r0, inR0 := m.R0[k]
			switch {
			case inR0 && !present:
				f["relation"] = relation(p, m.Ever)
				rc.Report(sim.Item{Prop: "C01", Clause: "C01.untouched-removed", Step: step, Fields: f,
					Detail: fmt.Sprintf("running leaf %s that no intent ever defined was removed from the device", k)})
			case inR0 && world.NormAbs(got.Abs) != world.NormAbs(r0.Abs):
				rc.Report(sim.Item{Prop: "C01", Clause: "C01.untouched-changed", Step: step, Fields: f,
					Detail: fmt.Sprintf("running leaf %s changed from %s to %s though no intent defined it", k, r0.Abs, got.Abs)})
			case !inR0 && present:
				f["observed"] = world.NormAbs(got.Abs)
				rc.Report(sim.Item{Prop: "C01", Clause: "C01.spurious", Step: step, Fields: f,
					Detail: fmt.Sprintf("device got %s=%s that no intent and no running config defines", k, got.Abs)})
			}
		}
	}
}

func hasLeafBelow(s world.DevState, p world.Path) bool {
	for _, l := range s {
		if len(l.Path) > len(p) && l.Path.HasPrefix(p) {
			return true
		}
	}
	return false
}

func renderEdits(tx *TxSpec) string {
	es := []string{}
	for _, is := range tx.Intents {
		es = append(es, is.Edit)
	}
	sort.Strings(es)
	return strings.Join(es, "+")
}

// OracleResponseMatchesDevice: response Update/Delete equal what the device received (C01 clause).
func OracleResponseMatchesDevice(rc *sim.RunCtx, w *world.World, res *TxResult, step int) {
	if res.SetsAfter != res.SetsBefore+1 {
		return
	}
	rec := w.Dev.Sets[res.SetsAfter-1]
	var du, dd []string
	for _, u := range rec.Updates {
		du = append(du, u.Path.String()+" = "+world.NormAbs(u.Abs))
	}
	for _, d := range rec.Deletes {
		dd = append(dd, d.String())
	}
	a, b := diffSets(res.Updates, du)
	c, d := diffSets(res.Deletes, dd)
	if len(a)+len(b)+len(c)+len(d) > 0 {
		// does any differing path run through a list whose keys are declared in non-alphabetical order (C11's subject)?
		na := false
		for _, l := range [][]string{a, b, c, d} {
			for _, e := range l {
				if x, _ := pathTraits(w.SI, mustPath(w, strings.SplitN(e, " = ", 2)[0])); x {
					na = true
				}
			}
		}
		rc.Report(sim.Item{Prop: "C01", Clause: "C01.response-differs", Step: step, Fields: map[string]string{"nonalpha": fmt.Sprint(na)},
			Detail: fmt.Sprintf("response-only upd %v del %v; device-only upd %v del %v", a, c, b, d)})
	}
}

// OracleC02 compares the intended store dump with the model.
func OracleC02(rc *sim.RunCtx, w *world.World, m *Model, step int, tx *TxSpec) {
	dump, err := w.DumpIntended()
	if err != nil {
		rc.HarnessErr("C02 dump: %v", err)
		return
	}
	exp := m.ExpectedIntended()
	edits := map[string]string{}
	if tx != nil {
		for _, is := range tx.Intents {
			edits[is.Name] = is.Edit
		}
	}
	seen := map[string]int{}
	for _, e := range dump {
		seen[e.Key()]++
	}
	keys := make([]string, 0, len(seen))
	for k := range seen {
		keys = append(keys, k)
	}
	sort.Strings(keys)
	byKey := map[string]world.StoreEntry{}
	for _, e := range dump {
		byKey[e.Key()] = e
	}
	for _, k := range keys {
		e := byKey[k]
		f := map[string]string{"path": e.Path.String(), "owner": e.Owner, "prio": fmt.Sprint(e.Prio), "edit": edits[e.Owner]}
		if exp[k] {
			if seen[k] > 1 {
				f["kind"] = "duplicate-timestamp"
				rc.Report(sim.Item{Prop: "C02", Clause: "C02.extra-entry", Step: step, Fields: f,
					Detail: fmt.Sprintf("%d copies of %s (different timestamps)", seen[k], k)})
			}
			continue
		}
		// classify the extra entry
		kind := "unknown"
		li, live := m.Live[e.Owner]
		switch {
		case !live:
			kind = "deleted-intent"
		case li.Leaves[e.Path.String()] == nil:
			kind = "removed-path"
		case li.Prio != e.Prio:
			kind = "old-priority"
		default:
			kind = "superseded-value"
		}
		f["kind"] = kind
		if r := m.Ruler(e.Path.String()); r != nil {
			f["shadowed"] = fmt.Sprint(r.Name != e.Owner)
		}
		rc.Report(sim.Item{Prop: "C02", Clause: "C02.extra-entry", Step: step, Fields: f,
			Detail: fmt.Sprintf("intended store holds %s which is not part of any live intent version (%s)", k, kind)})
	}
	ek := make([]string, 0, len(exp))
	for k := range exp {
		ek = append(ek, k)
	}
	sort.Strings(ek)
	for _, k := range ek {
		if seen[k] == 0 {
			parts := strings.Split(k, "|")
			f := map[string]string{"path": parts[0], "owner": parts[1], "prio": parts[2], "edit": edits[parts[1]]}
			// is there an entry with same path+owner but other prio/value?
			for _, e := range dump {
				if e.Path.String() == parts[0] && e.Owner == parts[1] {
					if fmt.Sprint(e.Prio) != parts[2] {
						f["kind"] = "wrong-priority"
						f["stored_prio"] = fmt.Sprint(e.Prio)
					} else {
						f["kind"] = "wrong-value"
					}
				}
			}
			if f["kind"] == "" {
				f["kind"] = "absent"
			}
			rc.Report(sim.Item{Prop: "C02", Clause: "C02.missing-entry", Step: step, Fields: f,
				Detail: fmt.Sprintf("intended store lacks %s (%s)", k, f["kind"])})
		}
	}
}
