package checks

import (
	"fmt"
	"regexp"
	"sort"
	"strconv"
	"strings"

	"github.com/sdcio/data-server/pkg/config"

	"verif/world"
)

// Violation is one finding of the harness's own constraint evaluator for the vsim schema (DESIGN 3.5).
type Violation struct {
	Class string // mandatory leafref must range length pattern minmax
	Path  string
	What  string
	// Dep: the path whose ABSENCE causes the violation ("" if the violation is about a value)
	Dep string
}

var reCode = regexp.MustCompile(`^[a-z]+[0-9]*$`)

// EvalConstraints evaluates exactly the constraints the vsim modules declare over a flat configuration.
func EvalConstraints(cfg map[string]*MLeaf) []Violation {
	var out []Violation
	get := func(p string) (*MLeaf, bool) { l, ok := cfg[p]; return l, ok }
	atoi := func(s string) int { n, _ := strconv.Atoi(s); return n }
	if l, ok := get("/sys/mtu"); ok {
		if v := atoi(l.Lex); v < 68 || v > 9000 {
			out = append(out, Violation{"range", l.Key(), "mtu " + l.Lex + " not in 68..9000", ""})
		}
	}
	if l, ok := get("/sys/nums"); ok && l.Lex != "" {
		for _, e := range strings.Split(l.Lex, ",") {
			if v := atoi(e); v < 1 || v > 50 {
				out = append(out, Violation{"range", l.Key(), "nums element " + e + " not in 1..50", ""})
			}
		}
	}
	if l, ok := get("/sys/descr"); ok {
		if n := len([]rune(l.Lex)); n < 1 || n > 8 {
			out = append(out, Violation{"length", l.Key(), "descr length not in 1..8", ""})
		}
	}
	if l, ok := get("/sys/code"); ok && (!reCode.MatchString(l.Lex) || strings.HasPrefix(l.Lex, "z")) {
		out = append(out, Violation{"pattern", l.Key(), "code does not match both patterns [a-z]+[0-9]* and [^z].*", ""})
	}
	// mandatory: every cons/ml entry needs req
	entries := map[string]bool{}
	for _, l := range cfg {
		if len(l.Path) >= 2 && l.Path[0].Name == "cons" && l.Path[1].Name == "ml" {
			entries[l.Path[:2].String()] = true
		}
	}
	for e := range entries {
		if _, ok := get(e + "/req"); !ok {
			out = append(out, Violation{"mandatory", e + "/req", "mandatory leaf req missing in " + e, e + "/req"})
		}
	}
	// leafref with a current() predicate: per ml entry, mref must equal the val of the k1 entry that msel names
	for e := range entries {
		mref, ok := get(e + "/mref")
		if !ok {
			continue
		}
		msel, sok := get(e + "/msel")
		if !sok {
			out = append(out, Violation{"leafref", mref.Key(), "leafref predicate operand " + e + "/msel does not exist", e + "/msel"})
			continue
		}
		tp := "/k1[name=" + msel.Lex + "]/val"
		if tv, ok := get(tp); !ok {
			out = append(out, Violation{"leafref", mref.Key(), "leafref target " + tp + " does not exist", tp})
		} else if tv.Lex != mref.Lex {
			out = append(out, Violation{"leafref", mref.Key(), "no instance of " + tp + " has the value " + mref.Lex, ""})
		}
	}
	if l, ok := get("/cons/ref"); ok {
		if _, ok := get("/k1[name=" + l.Lex + "]/name"); !ok {
			out = append(out, Violation{"leafref", l.Key(), "leafref target /k1[name=" + l.Lex + "]/name does not exist", "/k1[name=" + l.Lex + "]/name"})
		}
	}
	if hi, ok := get("/cons/hi"); ok {
		lo, lok := get("/cons/lo")
		if !lok {
			out = append(out, Violation{"must", hi.Key(), "must . >= ../lo", "/cons/lo"})
		} else if atoi(hi.Lex) < atoi(lo.Lex) {
			out = append(out, Violation{"must", hi.Key(), "must . >= ../lo", ""})
		}
	}
	if nh, ok := get("/cons/needshost"); ok && nh.Lex == "yes" {
		if _, ok := get("/sys/hostname"); !ok {
			out = append(out, Violation{"must", nh.Key(), "must . = 'no' or /sys/hostname", "/sys/hostname"})
		}
	}
	if l, ok := get("/cons/lim"); ok {
		n := 0
		if l.Lex != "" {
			n = len(strings.Split(l.Lex, ","))
		}
		if n < 2 || n > 3 {
			out = append(out, Violation{"minmax", l.Key(), fmt.Sprintf("lim has %d elements, allowed 2..3", n), ""})
		}
	}
	if l, ok := get("/cons/lmax"); ok {
		n := 0
		if l.Lex != "" {
			n = len(strings.Split(l.Lex, ","))
		}
		if n > 2 {
			out = append(out, Violation{"minmax", l.Key(), fmt.Sprintf("lmax has %d elements, allowed ..2", n), ""})
		}
	}
	sort.Slice(out, func(i, j int) bool { return out[i].Path+out[i].Class < out[j].Path+out[j].Class })
	return out
}

// Enabled filters violations by the validator switches of the datastore configuration.
func EnabledViolations(vs []Violation, d config.Validators) []Violation {
	var out []Violation
	for _, v := range vs {
		off := false
		switch v.Class {
		case "mandatory":
			off = d.Mandatory
		case "leafref":
			off = d.Leafref
		case "minmax":
			off = d.LeafrefMinMaxAttributes
		case "pattern":
			off = d.Pattern
		case "must":
			off = d.MustStatement
		case "length":
			off = d.Length
		case "range":
			off = d.Range
		}
		if !off {
			out = append(out, v)
		}
	}
	return out
}

// MergedConfig is the configuration the merge model predicts: per path the ruling live leaf.
func (m *Model) MergedConfig() map[string]*MLeaf {
	out := map[string]*MLeaf{}
	winners := m.choiceWinners()
	for _, n := range m.LiveNames() {
		for k, l := range m.Live[n].Leaves {
			if m.losing(l.Path, winners) {
				continue
			}
			if r := m.Ruler(k); r != nil && r.Name == n {
				out[k] = l
			}
		}
	}
	// leaves an orphan delete left on the device are part of the resulting configuration
	for k, l := range m.OrphanVals {
		if _, ok := out[k]; !ok && (m.DevHas == nil || m.DevHas(k)) {
			out[k] = l
		}
	}
	return out
}

var _ = world.DSName
