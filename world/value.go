package world

import (
	"encoding/json"
	"fmt"
	"math/big"
	"sort"
	"strings"

	sdcpb "github.com/sdcio/sdc-protos/sdcpb"
)

// Abstract value domain of the harness (DESIGN 3.7): a canonical string per datum.
//   int:<decimal>   dec:<num>/<den>   bool:true|false   empty   str:<s>   enum:<name>
//   idref:<module>:<name>   ll:[a|b|c] (sorted; leaf-lists are system ordered in vsim)

func absInt(s string) (string, bool) {
	s = strings.TrimSpace(s)
	bi, ok := new(big.Int).SetString(s, 10)
	if !ok {
		return "", false
	}
	return "int:" + bi.String(), true
}

func absDec(s string) (string, bool) {
	r, ok := new(big.Rat).SetString(strings.TrimSpace(s))
	if !ok {
		return "", false
	}
	return "dec:" + r.String(), true
}

func absDecDigits(d *sdcpb.Decimal64) string {
	r := new(big.Rat).SetFrac(big.NewInt(d.GetDigits()), new(big.Int).Exp(big.NewInt(10), big.NewInt(int64(d.GetPrecision())), nil))
	return "dec:" + r.String()
}

func absDecDigitsRaw(digits int64, precision uint32) string {
	r := new(big.Rat).SetFrac(big.NewInt(digits), new(big.Int).Exp(big.NewInt(10), big.NewInt(int64(precision)), nil))
	return "dec:" + r.String()
}

// identity module resolution for vsim
var identityModule = map[string]string{"kind": "vsim", "kind-a": "vsim", "kind-b": "vsim", "kind-x": "vsim-ext"}
var prefixToModule = map[string]string{"vs": "vsim", "vx": "vsim-ext", "vsim": "vsim", "vsim-ext": "vsim-ext"}

// IdentityModuleOf returns the module that defines the identity (vsim schema), "" if unknown.
func IdentityModuleOf(name string) string { return identityModule[name] }

func absIdentity(s string) string {
	name := s
	mod := ""
	if i := strings.LastIndex(s, ":"); i >= 0 {
		name = s[i+1:]
		if m, ok := prefixToModule[s[:i]]; ok {
			mod = m
		} else {
			mod = "?" + s[:i]
		}
	}
	if m, ok := identityModule[name]; ok && (mod == "" || mod == m) {
		mod = m
	} else if mod == "" {
		mod = "?"
	}
	return "idref:" + mod + ":" + name
}

// AbsScalarFromString interprets a lexical value according to a leaf type.
func AbsScalarFromString(t *sdcpb.SchemaLeafType, s string) string {
	if t == nil {
		return "str:" + s
	}
	switch t.GetType() {
	case "int8", "int16", "int32", "int64", "uint8", "uint16", "uint32", "uint64":
		if v, ok := absInt(s); ok {
			return v
		}
		return "badint:" + s
	case "decimal64":
		if v, ok := absDec(s); ok {
			return v
		}
		return "baddec:" + s
	case "boolean":
		return "bool:" + strings.TrimSpace(s)
	case "empty":
		return "empty"
	case "enumeration":
		return "enum:" + s
	case "identityref":
		return absIdentity(s)
	case "leafref":
		if t.GetLeafrefTargetType() != nil {
			return AbsScalarFromString(t.GetLeafrefTargetType(), s)
		}
		return "str:" + s
	case "union":
		// canonical lexical form: first member type that accepts the string
		for _, ut := range t.GetUnionTypes() {
			switch ut.GetType() {
			case "uint8", "uint16", "uint32", "uint64", "int8", "int16", "int32", "int64":
				if v, ok := absInt(s); ok {
					return "u-" + v
				}
			case "enumeration":
				for _, en := range ut.GetEnumNames() {
					if en == s {
						return "u-lex:" + s
					}
				}
			}
		}
		return "u-lex:" + s
	default:
		return "str:" + s
	}
}

// AbsTV maps a typed value as delivered to / reported by a party to the abstract domain.
func AbsTV(n *Node, tv *sdcpb.TypedValue) string {
	var t *sdcpb.SchemaLeafType
	if n != nil {
		t = n.Type
	}
	if tv == nil || tv.Value == nil {
		return "nil"
	}
	if n != nil && n.Kind == KContainer {
		if _, ok := tv.Value.(*sdcpb.TypedValue_EmptyVal); ok {
			return "empty"
		}
	}
	return absTVType(t, tv)
}

func absTVType(t *sdcpb.SchemaLeafType, tv *sdcpb.TypedValue) string {
	isUnion := t != nil && t.GetType() == "union"
	switch v := tv.Value.(type) {
	case *sdcpb.TypedValue_StringVal:
		return AbsScalarFromString(t, v.StringVal)
	case *sdcpb.TypedValue_AsciiVal:
		return AbsScalarFromString(t, v.AsciiVal)
	case *sdcpb.TypedValue_IntVal:
		if isUnion {
			return "u-int:" + fmt.Sprint(v.IntVal)
		}
		return "int:" + fmt.Sprint(v.IntVal)
	case *sdcpb.TypedValue_UintVal:
		if isUnion {
			return "u-int:" + fmt.Sprint(v.UintVal)
		}
		return "int:" + fmt.Sprint(v.UintVal)
	case *sdcpb.TypedValue_BoolVal:
		return fmt.Sprintf("bool:%t", v.BoolVal)
	case *sdcpb.TypedValue_DecimalVal:
		return absDecDigits(v.DecimalVal)
	case *sdcpb.TypedValue_FloatVal:
		return fmt.Sprintf("float:%v", v.FloatVal)
	case *sdcpb.TypedValue_DoubleVal:
		return fmt.Sprintf("float:%v", v.DoubleVal)
	case *sdcpb.TypedValue_EmptyVal:
		return "empty"
	case *sdcpb.TypedValue_IdentityrefVal:
		s := v.IdentityrefVal.GetValue()
		if m := v.IdentityrefVal.GetModule(); m != "" {
			return "idref:" + m + ":" + s
		}
		if p := v.IdentityrefVal.GetPrefix(); p != "" {
			return absIdentity(p + ":" + s)
		}
		return absIdentity(s)
	case *sdcpb.TypedValue_LeaflistVal:
		els := make([]string, 0, len(v.LeaflistVal.GetElement()))
		for _, e := range v.LeaflistVal.GetElement() {
			els = append(els, absTVType(t, e))
		}
		sort.Strings(els)
		return "ll:[" + strings.Join(els, "|") + "]"
	case *sdcpb.TypedValue_BytesVal:
		return fmt.Sprintf("bytes:%x", v.BytesVal)
	case *sdcpb.TypedValue_JsonVal:
		return absJSONScalar(t, v.JsonVal)
	case *sdcpb.TypedValue_JsonIetfVal:
		return absJSONScalar(t, v.JsonIetfVal)
	}
	return fmt.Sprintf("unknown:%T", tv.Value)
}

func absJSONScalar(t *sdcpb.SchemaLeafType, b []byte) string {
	dec := json.NewDecoder(strings.NewReader(string(b)))
	dec.UseNumber()
	var v any
	if err := dec.Decode(&v); err != nil {
		return "badjson:" + string(b)
	}
	return AbsJSONValue(t, v)
}

// AbsJSONValue interprets a decoded JSON scalar / array for a leaf type.
func AbsJSONValue(t *sdcpb.SchemaLeafType, v any) string {
	switch x := v.(type) {
	case string:
		return AbsScalarFromString(t, x)
	case json.Number:
		return AbsScalarFromString(t, x.String())
	case bool:
		return fmt.Sprintf("bool:%t", x)
	case nil:
		return "empty"
	case []any:
		if t != nil && t.GetType() == "empty" && len(x) == 1 && x[0] == nil {
			return "empty"
		}
		els := make([]string, 0, len(x))
		for _, e := range x {
			els = append(els, AbsJSONValue(t, e))
		}
		sort.Strings(els)
		return "ll:[" + strings.Join(els, "|") + "]"
	case map[string]any:
		if len(x) == 0 {
			return "empty"
		}
	case int, int8, int16, int32, int64, uint, uint8, uint16, uint32, uint64, float32, float64:
		// documents that were not serialised yet carry native Go numbers
		return AbsScalarFromString(t, fmt.Sprint(x))
	}
	return fmt.Sprintf("badjsonval:%v", v)
}

// normUnion folds the different union renderings (typed int vs lexical) together: number 5 and
// string "5" are treated as equal (DESIGN 3.7).
func NormAbs(s string) string {
	if strings.HasPrefix(s, "u-int:") {
		return "u:" + strings.TrimPrefix(s, "u-int:")
	}
	if strings.HasPrefix(s, "u-lex:") {
		return "u:" + strings.TrimPrefix(s, "u-lex:")
	}
	return s
}
