#!/usr/bin/env python3
import json,sys
for f in sys.argv[1:]:
    r=json.load(open(f))
    print('==',f)
    print(' clause',r['clause'],'tape',len(r.get('tape') or []),'orig',r.get('original_tape_len'),'|',r.get('reproduction'),'| tried',r.get('minimiser_candidates'))
    for l in r.get('scenario') or []: print('  ',l)
    for it in (r.get('items') or [])[:12]: print('  ITEM',it['clause'],'step',it.get('step'),it.get('fields'),'\n      ',it['detail'][:1500])
    for it in (r.get('first_seen') or [])[:6]: print('  FIRST-SEEN (not reproduced by replay)',it['clause'],'step',it.get('step'),it.get('fields'),'\n      ',it['detail'][:1500])
    if r.get('crash'): print(r['crash'][-3000:])
