package checks

import (
	"context"
	"encoding/json"
	"fmt"
	"sort"
	"strconv"
	"strings"
	"testing/synctest"

	"github.com/beevik/etree"
	"github.com/openconfig/gnmi/proto/gnmi"
	sdcpb "github.com/sdcio/sdc-protos/sdcpb"

	"github.com/sdcio/data-server/pkg/config"
	"github.com/sdcio/data-server/pkg/datastore/target"
	"github.com/sdcio/data-server/pkg/utils"

	"verif/sim"
	"verif/world"
)

// The echo leg of C12: the device reports the value it holds back to data-server in one of its native forms - a gNMI
// notification (typed scalar, JSON or JSON_IETF value on the leaf, JSON_IETF document on the parent) converted by the real
// utils.ToSchemaNotification, or a NETCONF get-config reply converted by the real ncTarget.Get / XML adapter - and the real
// Datastore.Sync stores it. What the running store then holds must denote the datum.

var echoForms = []string{"gnmi-typed", "gnmi-json", "gnmi-json_ietf", "gnmi-json_ietf-parent", "netconf-xml"}

// gnmiScalar renders one lexical value the way a gNMI device reports it with the PROTO (scalar) encoding.
func gnmiScalar(t *sdcpb.SchemaLeafType, lex string) *gnmi.TypedValue {
	switch t.GetType() {
	case "uint8", "uint16", "uint32", "uint64":
		if v, err := strconv.ParseUint(lex, 10, 64); err == nil {
			return &gnmi.TypedValue{Value: &gnmi.TypedValue_UintVal{UintVal: v}}
		}
	case "int8", "int16", "int32", "int64":
		if v, err := strconv.ParseInt(lex, 10, 64); err == nil {
			return &gnmi.TypedValue{Value: &gnmi.TypedValue_IntVal{IntVal: v}}
		}
	case "boolean":
		return &gnmi.TypedValue{Value: &gnmi.TypedValue_BoolVal{BoolVal: lex == "true"}}
	case "empty":
		return &gnmi.TypedValue{Value: &gnmi.TypedValue_BoolVal{BoolVal: true}}
	case "decimal64":
		if d, ok := parseDec(lex); ok {
			return &gnmi.TypedValue{Value: &gnmi.TypedValue_DecimalVal{DecimalVal: &gnmi.Decimal64{Digits: d.Digits, Precision: d.Precision}}}
		}
	}
	return &gnmi.TypedValue{Value: &gnmi.TypedValue_StringVal{StringVal: lex}}
}

func toGnmiPath(p world.Path) *gnmi.Path {
	gp := &gnmi.Path{}
	for _, e := range p {
		ge := &gnmi.PathElem{Name: e.Name}
		if len(e.Keys) > 0 {
			ge.Key = map[string]string{}
			for k, v := range e.Keys {
				ge.Key[k] = v
			}
		}
		gp.Elem = append(gp.Elem, ge)
	}
	return gp
}

// echoNotifications builds what the device sends for leaf l in the given native form, converted by the real device-side converters.
func echoNotifications(w *world.World, l *MLeaf, form string) ([]*sdcpb.Notification, error) {
	n := l.Node
	switch form {
	case "gnmi-typed":
		var tv *gnmi.TypedValue
		if n.Kind == world.KLeafList {
			arr := &gnmi.ScalarArray{}
			if l.Lex != "" {
				for _, e := range strings.Split(l.Lex, ",") {
					arr.Element = append(arr.Element, gnmiScalar(n.Type, e))
				}
			}
			tv = &gnmi.TypedValue{Value: &gnmi.TypedValue_LeaflistVal{LeaflistVal: arr}}
		} else {
			tv = gnmiScalar(n.Type, l.Lex)
		}
		gn := &gnmi.Notification{Update: []*gnmi.Update{{Path: toGnmiPath(l.Path), Val: tv}}}
		return []*sdcpb.Notification{utils.ToSchemaNotification(gn)}, nil
	case "gnmi-json", "gnmi-json_ietf":
		ietf := form == "gnmi-json_ietf"
		var v any
		if n.Kind == world.KLeafList {
			arr := []any{}
			if l.Lex != "" {
				for _, e := range strings.Split(l.Lex, ",") {
					arr = append(arr, jsonScalar(n, e, ietf))
				}
			}
			v = arr
		} else {
			v = jsonScalar(n, l.Lex, ietf)
		}
		b, err := json.Marshal(v)
		if err != nil {
			return nil, err
		}
		tv := &gnmi.TypedValue{Value: &gnmi.TypedValue_JsonVal{JsonVal: b}}
		if ietf {
			tv = &gnmi.TypedValue{Value: &gnmi.TypedValue_JsonIetfVal{JsonIetfVal: b}}
		}
		gn := &gnmi.Notification{Update: []*gnmi.Update{{Path: toGnmiPath(l.Path), Val: tv}}}
		return []*sdcpb.Notification{utils.ToSchemaNotification(gn)}, nil
	case "gnmi-json_ietf-parent":
		// the whole parent container as one RFC 7951 document (what a device answers to a subscription on the container)
		b, err := buildJSON(w.SI, []*MLeaf{l}, true)
		if err != nil {
			return nil, err
		}
		gn := &gnmi.Notification{Update: []*gnmi.Update{{Path: &gnmi.Path{}, Val: &gnmi.TypedValue{Value: &gnmi.TypedValue_JsonIetfVal{JsonIetfVal: b}}}}}
		return []*sdcpb.Notification{utils.ToSchemaNotification(gn)}, nil
	case "netconf-xml":
		doc := etree.NewDocument()
		e := doc.CreateElement("data")
		for i, pe := range l.Path[:len(l.Path)-1] {
			e = e.CreateElement(pe.Name)
			if i == 0 {
				e.CreateAttr("xmlns", w.SI.Node(l.Path[:1]).Namespace)
			}
			kn := make([]string, 0, len(pe.Keys))
			for k := range pe.Keys {
				kn = append(kn, k)
			}
			sort.Strings(kn)
			for _, k := range kn {
				e.CreateElement(k).SetText(pe.Keys[k])
			}
		}
		name := l.Path[len(l.Path)-1].Name
		switch {
		case n.Kind == world.KLeafList:
			if l.Lex != "" {
				for _, x := range strings.Split(l.Lex, ",") {
					e.CreateElement(name).SetText(x)
				}
			}
		case n.Type.GetType() == "empty":
			e.CreateElement(name)
		default:
			e.CreateElement(name).SetText(l.Lex)
		}
		drv := world.NewNCDriver(nil)
		drv.GetConfigFn = func(string, string) (*etree.Document, error) { return doc, nil }
		cfg := &config.SBI{Type: "netconf", NetconfOptions: &config.SBINetconfOptions{CommitDatastore: "candidate", IncludeNS: true}}
		tgt := target.VerifNewNCTarget("dev", cfg, w.DS.VerifSchemaClientBound(), drv)
		rsp, err := tgt.Get(context.Background(), &sdcpb.GetDataRequest{Path: []*sdcpb.Path{l.Path[:1].ToSdcpb()}, Datastore: &sdcpb.DataStore{Type: sdcpb.Type_MAIN}})
		if err != nil {
			return nil, err
		}
		return rsp.GetNotification(), nil
	}
	return nil, fmt.Errorf("unknown echo form %s", form)
}

// c12Echo pushes the device's report of leaf l through the running Datastore.Sync and judges what the running store holds.
func c12Echo(rc *sim.RunCtx, w *world.World, ch chan *target.SyncUpdate, l *MLeaf, form string, same func(string) bool, f map[string]string, step int) {
	ff := copyFields(f)
	ff["echo"] = form
	ns, err := echoNotifications(w, l, form)
	if err != nil {
		ff["error"] = normErr(err)
		rc.Report(sim.Item{Prop: "C12", Clause: "C12.echo-refused", Step: step, Fields: ff, Detail: fmt.Sprintf("the device's report of the value in form %s was refused by the device-side conversion: %v", form, normErr(err))})
		return
	}
	rc.Probe("echo-" + form)
	for _, n := range ns {
		ch <- &target.SyncUpdate{Update: n}
	}
	synctest.Wait() // every goroutine is blocked: the sync worker is done with the notification
	dump, err := w.DumpConfig()
	if err != nil {
		rc.HarnessErr("dump: %v", err)
		return
	}
	got := "absent"
	raw := ""
	for _, e := range dump {
		if e.Path.String() == l.Path.String() {
			got = world.NormAbs(e.Abs)
			raw = strings.ReplaceAll(e.TV.String(), "  ", " ")
		}
	}
	rc.Logf("ECHO %s as %s -> running holds %s", l.Path, form, got)
	rc.Scenario("   device reports %s back as %s -> running store holds %s (%s)", l.Path, form, got, raw)
	f["echo"] = form
	if !same(got) {
		rc.Report(sim.Item{Prop: "C12", Clause: "C12.echo-value", Step: step, Fields: ff, Detail: fmt.Sprintf("the device reported %s = %q as %s; the running store holds %s, the datum is %s", l.Path, l.Lex, form, got, world.NormAbs(l.Abs))})
	}
}
