package world

import (
	"errors"
	"fmt"

	"github.com/beevik/etree"

	nctypes "github.com/sdcio/data-server/pkg/datastore/target/netconf/types"
)

// NCDriver is an in-process netconf.Driver: it records every call, models candidate/running as lists of
// accepted edit documents and injects failures per call.
type NCDriver struct {
	Calls   []string // "edit-config(candidate)", "commit", "discard", ...
	Docs    []string
	Pending []string // edits accepted into the candidate, not yet committed
	Running []string // edits that reached running
	Dead    bool
	// WarnOnEdit makes a successful edit-config reply carry an rpc-error of severity warning
	WarnOnEdit bool
	// Fault returns the error to inject for the n-th call of the given kind ("" = none; "eof" = dead connection).
	Fault func(call string, n int) string
	count map[string]int
	// OnEdit is called for every accepted edit-config (device front end hook).
	OnEdit func(target, doc string) error
	// OnCommit / OnDiscard: device front end hooks (the candidate is applied / dropped).
	OnCommit  func() error
	OnDiscard func()
	// GetConfigFn serves get-config.
	GetConfigFn func(source, filter string) (*etree.Document, error)
	Logf        func(string, ...any)
}

func NewNCDriver(logf func(string, ...any)) *NCDriver {
	return &NCDriver{count: map[string]int{}, Logf: logf}
}

var ErrNCRpc = errors.New("netconf rpc-error: operation-failed (injected)")
var ErrNCEOF = errors.New("netconf transport: EOF (injected dead connection)")

func (d *NCDriver) fault(call string) error {
	n := d.count[call]
	d.count[call]++
	if d.Dead {
		return ErrNCEOF
	}
	if d.Fault == nil {
		return nil
	}
	switch d.Fault(call, n) {
	case "":
		return nil
	case "eof":
		d.Dead = true
		return ErrNCEOF
	default:
		return ErrNCRpc
	}
}

func okDoc() *nctypes.NetconfResponse {
	doc := etree.NewDocument()
	doc.CreateElement("ok")
	return nctypes.NewNetconfResponse(doc)
}

func (d *NCDriver) log(s string) {
	d.Calls = append(d.Calls, s)
	if d.Logf != nil {
		d.Logf("NETCONF %s", s)
	}
}

func (d *NCDriver) Get(filter string) (*nctypes.NetconfResponse, error) {
	d.log("get")
	return okDoc(), d.fault("get")
}

func (d *NCDriver) GetConfig(source string, filter string) (*nctypes.NetconfResponse, error) {
	d.log("get-config(" + source + ")")
	if err := d.fault("get-config"); err != nil {
		return nil, err
	}
	if d.GetConfigFn != nil {
		doc, err := d.GetConfigFn(source, filter)
		if err != nil {
			return nil, err
		}
		return nctypes.NewNetconfResponse(doc), nil
	}
	return okDoc(), nil
}

func (d *NCDriver) EditConfig(target string, config string) (*nctypes.NetconfResponse, error) {
	d.log("edit-config(" + target + ")")
	d.Docs = append(d.Docs, config)
	if err := d.fault("edit-config"); err != nil {
		return nil, err
	}
	if d.OnEdit != nil {
		if err := d.OnEdit(target, config); err != nil {
			return nil, fmt.Errorf("netconf rpc-error: %w", err)
		}
	}
	if target == "candidate" {
		d.Pending = append(d.Pending, config)
	} else {
		d.Running = append(d.Running, config)
	}
	if d.WarnOnEdit {
		doc := etree.NewDocument()
		rep := doc.CreateElement("rpc-reply")
		re := rep.CreateElement("rpc-error")
		re.CreateElement("error-type").SetText("application")
		re.CreateElement("error-severity").SetText("warning")
		re.CreateElement("error-message").SetText("value will take effect after reboot")
		rep.CreateElement("ok")
		return nctypes.NewNetconfResponse(doc), nil
	}
	return okDoc(), nil
}

func (d *NCDriver) Lock(target string) (*nctypes.NetconfResponse, error) {
	d.log("lock(" + target + ")")
	return okDoc(), d.fault("lock")
}

func (d *NCDriver) Unlock(target string) (*nctypes.NetconfResponse, error) {
	d.log("unlock(" + target + ")")
	return okDoc(), d.fault("unlock")
}

func (d *NCDriver) Validate(source string) (*nctypes.NetconfResponse, error) {
	d.log("validate(" + source + ")")
	return okDoc(), d.fault("validate")
}

func (d *NCDriver) Commit() error {
	d.log("commit")
	if err := d.fault("commit"); err != nil {
		return err
	}
	d.Running = append(d.Running, d.Pending...)
	d.Pending = nil
	if d.OnCommit != nil {
		return d.OnCommit()
	}
	return nil
}

func (d *NCDriver) Discard() error {
	d.log("discard")
	if err := d.fault("discard"); err != nil {
		return err
	}
	d.Pending = nil
	if d.OnDiscard != nil {
		d.OnDiscard()
	}
	return nil
}

func (d *NCDriver) Close() error {
	d.log("close")
	return nil
}

func (d *NCDriver) IsAlive() bool { return !d.Dead }
