package checks

import (
	"fmt"
	"sort"
	"strings"

	"verif/sim"
	"verif/world"
)

func leavesToState(ls []*world.Leaf) world.DevState {
	st := world.DevState{}
	for _, l := range ls {
		st.Set(l)
	}
	return st
}

// diffInChoice reports whether some differing leaf lies below a choice member.
func diffInChoice(si *world.SchemaInfo, a, b world.DevState) bool {
	for _, st := range []world.DevState{a, b} {
		for k, l := range st {
			o := b
			if &st == &b {
				o = a
			}
			if x, ok := a[k]; ok {
				if y, ok2 := b[k]; ok2 && world.NormAbs(x.Abs) == world.NormAbs(y.Abs) {
					continue
				}
			}
			_ = o
			for i := range l.Path {
				if n := si.Node(l.Path[:i+1]); n != nil && n.Choice != "" {
					return true
				}
			}
		}
	}
	return false
}

func diffStates(a, b world.DevState) []string {
	var out []string
	keys := map[string]bool{}
	for k := range a {
		keys[k] = true
	}
	for k := range b {
		keys[k] = true
	}
	ks := make([]string, 0, len(keys))
	for k := range keys {
		ks = append(ks, k)
	}
	sort.Strings(ks)
	for _, k := range ks {
		x, okx := a[k]
		y, oky := b[k]
		switch {
		case okx && !oky:
			out = append(out, fmt.Sprintf("%s: %s vs absent", k, world.NormAbs(x.Abs)))
		case !okx && oky:
			out = append(out, fmt.Sprintf("%s: absent vs %s", k, world.NormAbs(y.Abs)))
		case world.NormAbs(x.Abs) != world.NormAbs(y.Abs):
			out = append(out, fmt.Sprintf("%s: %s vs %s", k, world.NormAbs(x.Abs), world.NormAbs(y.Abs)))
		}
	}
	return out
}

// diffKind classifies a state difference a (reference) vs b: "b-missing" (b lacks leaves a has), "b-extra", "value", or "mixed".
func diffKind(a, b world.DevState) string {
	kinds := map[string]bool{}
	for k, x := range a {
		if y, ok := b[k]; !ok {
			kinds["b-missing"] = true
		} else if world.NormAbs(x.Abs) != world.NormAbs(y.Abs) {
			kinds["value"] = true
		}
	}
	for k := range b {
		if _, ok := a[k]; !ok {
			kinds["b-extra"] = true
		}
	}
	switch len(kinds) {
	case 0:
		return "none"
	case 1:
		for k := range kinds {
			return k
		}
	}
	return "mixed"
}

// diffUnderDeletes: every differing leaf lies at or below one of the deleted subtrees.
func diffUnderDeletes(a, b world.DevState, dels []world.Path) bool {
	under := func(p world.Path) bool {
		for _, d := range dels {
			if p.HasPrefix(d) {
				return true
			}
		}
		return false
	}
	for k, x := range a {
		if y, ok := b[k]; ok && world.NormAbs(x.Abs) == world.NormAbs(y.Abs) {
			continue
		}
		if !under(x.Path) {
			return false
		}
	}
	for k, y := range b {
		if _, ok := a[k]; !ok && !under(y.Path) {
			return false
		}
	}
	return true
}

// OracleC10 judges the encodings captured for one Set of the direct device against the proto view.
func OracleC10(rc *sim.RunCtx, w *world.World, prior world.DevState, rec *world.SetRecord, step int, tx *TxSpec) {
	si := w.SI
	for k, e := range rec.EncErr {
		rc.Report(sim.Item{Prop: "C10", Clause: "C10.encoding-error", Step: step, Fields: map[string]string{"encoding": k}, Detail: e})
	}
	norm := func(s world.DevState) world.DevState { return s.WithImpliedPresence(si) }
	// effects are compared under the YANG reading of presence containers (an existing one stays until deleted explicitly)
	persist := func(s world.DevState, deleted []world.Path) world.DevState {
		return s.PersistPresence(si, prior, deleted)
	}
	// reference effect: proto view
	ref := prior.Clone()
	world.ApplyGnmi(ref, rec.Deletes, rec.Updates)
	ref = persist(ref, rec.Deletes)
	hasLL, hasDel, hasPresence := false, len(rec.Deletes) > 0, false
	for _, u := range rec.Updates {
		if n := si.Node(u.Path); n != nil && n.Kind == world.KLeafList {
			hasLL = true
		} else if n != nil && n.Kind == world.KContainer {
			hasPresence = true
		}
	}
	f := map[string]string{"edits": renderEdits(tx), "leaflist_update": fmt.Sprint(hasLL), "has_delete": fmt.Sprint(hasDel), "presence_update": fmt.Sprint(hasPresence)}
	if hasLL {
		rc.Probe("leaflist-update")
	}
	if hasDel {
		rc.Probe("delete-in-change")
	}
	// JSON / JSON_IETF change views (+ proto deletes, as the gNMI target sends them)
	for _, j := range []struct {
		name string
		v    any
	}{{"json", rec.JSON}, {"json_ietf", rec.JSONIETF}} {
		st := prior.Clone()
		for _, d := range rec.Deletes {
			st.Delete(d)
		}
		if j.v != nil {
			leaves, err := si.DecodeJSONValue(world.Path{}, j.v)
			if err != nil {
				ff := copyFields(f)
				ff["encoding"] = j.name
				rc.Report(sim.Item{Prop: "C10", Clause: "C10.undecodable", Step: step, Fields: ff, Detail: err.Error()})
				continue
			}
			for _, l := range leaves {
				st.Set(l)
			}
		}
		if d := diffStates(ref, persist(st, rec.Deletes)); len(d) > 0 {
			ff := copyFields(f)
			ff["encoding"] = j.name
			rc.Report(sim.Item{Prop: "C10", Clause: "C10.effect-differs", Step: step, Fields: ff, Detail: fmt.Sprintf("applying the %s view to the prior device state differs from the proto view (proto vs %s): %s", j.name, j.name, strings.Join(d, "; "))})
		}
	}
	// the 8 XML documents
	combos := make([]string, 0, len(rec.XML))
	for c := range rec.XML {
		combos = append(combos, c)
	}
	sort.Strings(combos)
	for _, c := range combos {
		ns, opns, rem := strings.HasPrefix(c, "ns1"), strings.Contains(c, "-op1-"), strings.HasSuffix(c, "-rem")
		st, iss := si.ApplyXML(prior, rec.XML[c], ns, opns, rem)
		seen := map[string]bool{}
		for _, it := range iss.Items {
			clause := strings.SplitN(it, ":", 2)[0]
			if seen[clause] {
				continue
			}
			seen[clause] = true
			ff := copyFields(f)
			ff["combo"] = c
			ff["ns"] = fmt.Sprint(ns)
			ff["delete_element"] = fmt.Sprint(strings.Contains(it, "[delete-element]"))
			rc.Report(sim.Item{Prop: "C10", Clause: clause, Step: step, Fields: ff, Detail: it + "\n" + rec.XML[c]})
		}
		if seen["C10.xml-malformed"] {
			continue
		}
		stp := persist(st, iss.Deleted)
		if d := diffStates(ref, stp); len(d) > 0 {
			ff := copyFields(f)
			ff["encoding"] = "xml"
			ff["combo"] = c
			// classify: does the document put operation=replace on a container (leaf-list change)?
			ff["replace_on_container"] = fmt.Sprint(strings.Contains(rec.XML[c], `operation="replace"`))
			ff["diff_kind"] = diffKind(ref, stp)
			ff["key_delete"] = fmt.Sprint(iss.KeyDelete)
			ff["choice_member"] = fmt.Sprint(diffInChoice(si, ref, stp))
			rc.Report(sim.Item{Prop: "C10", Clause: "C10.effect-differs", Step: step, Fields: ff, Detail: fmt.Sprintf("applying the XML (%s) document to the prior device state differs from the proto view (proto vs xml): %s\n%s", c, strings.Join(d, "; "), rec.XML[c])})
			break
		}
	}
	// full views: the same leaf set in every encoding
	full := norm(leavesToState(rec.ProtoFull))
	for _, j := range []struct {
		name string
		v    any
	}{{"json", rec.JSONFull}, {"json_ietf", rec.JSONIETFFull}} {
		if j.v == nil && len(full) == 0 {
			continue
		}
		leaves, err := si.DecodeJSONValue(world.Path{}, j.v)
		if err != nil {
			rc.Report(sim.Item{Prop: "C10", Clause: "C10.undecodable", Step: step, Fields: map[string]string{"encoding": j.name + "-full"}, Detail: err.Error()})
			continue
		}
		if d := diffStates(full, norm(leavesToState(leaves))); len(d) > 0 {
			ff := copyFields(f)
			ff["encoding"] = j.name
			ff["diff_kind"] = diffKind(full, norm(leavesToState(leaves)))
			ff["under_deletes"] = fmt.Sprint(diffUnderDeletes(full, norm(leavesToState(leaves)), rec.Deletes))
			rc.Report(sim.Item{Prop: "C10", Clause: "C10.full-view-differs", Step: step, Fields: ff, Detail: fmt.Sprintf("full view (proto vs %s): %s", j.name, strings.Join(d, "; "))})
		}
	}
	if x, ok := rec.XMLFull["ns1-op0-del"]; ok {
		st, iss := si.ApplyXML(world.DevState{}, x, true, false, false)
		for _, it := range iss.Items {
			if strings.HasPrefix(it, "C10.xml-malformed") || strings.HasPrefix(it, "C10.xml-keys-first") || strings.HasPrefix(it, "C10.xml-namespace") {
				rc.Report(sim.Item{Prop: "C10", Clause: strings.SplitN(it, ":", 2)[0], Step: step, Fields: map[string]string{"combo": "ns1-op0-del", "view": "full", "delete_element": fmt.Sprint(strings.Contains(it, "[delete-element]"))}, Detail: it})
				break
			}
		}
		if d := diffStates(full, norm(st)); len(d) > 0 {
			ff := copyFields(f)
			ff["encoding"] = "xml"
			ff["choice_member"] = fmt.Sprint(diffInChoice(si, full, norm(st)))
			ff["diff_kind"] = diffKind(full, norm(st))
			ff["under_deletes"] = fmt.Sprint(diffUnderDeletes(full, norm(st), rec.Deletes))
			rc.Report(sim.Item{Prop: "C10", Clause: "C10.full-view-differs", Step: step, Fields: ff, Detail: fmt.Sprintf("full view (proto vs xml): %s", strings.Join(d, "; "))})
		}
	}
}

func runC10(rc *sim.RunCtx) {
	h, err := NewHist(rc, HistOpts{Profiles: []string{"core", "presence", "choice", "core"}, MinTx: 2, MaxTx: 8, Capture: true,
		DevKinds: []string{"direct", "direct", "direct", "gnmi-proto", "gnmi-json", "gnmi-json_ietf", "netconf", "netconf-running"},
		Allowed:  map[string]bool{"create": true, "change": true, "grow": true, "shrink": true, "reprio": true, "delete": true, "resubmit": true},
		Oracles:  map[string]bool{}})
	if err != nil {
		rc.HarnessErr("world: %v", err)
		return
	}
	defer h.W.Close()
	var prior world.DevState
	h.Ops.AfterStep = func(h *Hist, step int, tx *TxSpec, res *TxResult) {
		if res.SetsAfter != res.SetsBefore+1 {
			return
		}
		rec := h.W.Dev.Sets[res.SetsAfter-1]
		if h.W.Shadow == nil {
			// direct device: all renderings of the same tree instance (with a wire front end Hist.Step runs the wire leg)
			OracleC10(rc, h.W, prior, rec, step, tx)
		}
		if len(rec.Updates)+len(rec.Deletes) > 0 {
			rc.NonTrivial()
		}
	}
	n := tierLen(rc, h.Ops)
	for s := 0; s < n; s++ {
		h.AdvanceClock()
		prior = h.W.Dev.State.Clone()
		h.Step(s)
	}
}

func init() {
	Register(&sim.Check{
		ID: "C10", Level: "exploration", Run: runC10,
		Rule: "C01 histories (profiles core, presence, choice; no orphan) on the direct device, which asks the SAME tree instance for the proto updates/deletes, JSON, JSON_IETF and the XML document for all 8 option combinations, each for onlyNewOrUpdated true and false. Every view is decoded by the harness's own schema-driven decoders and applied to a copy of the prior device state under its protocol's semantics (gNMI Set; RFC 6241 edit-config merge with delete/remove/replace); all resulting states must be equal (under the YANG reading of presence containers), full views must hold the same leaf set. Wire leg (half of the runs): the device is the real gnmiTarget (proto / json / json_ietf); the SetRequest it puts on the wire must be decodable and must have the same effect as the proto view of the same tree on a shadow device. XML clauses: well-formed, every element named, namespaces resolve to the schema node's namespace, list keys first in key-statement order, delete/remove and nc-prefix as configured. Non-trivial = a Set with content; distinct = C01 signature.",
		Real: append(append([]string{}, realCore...), "pkg/tree json.go/xml.go/proto.go, pkg/utils xml.go/value.go"), Stub: stubCore,
		Assume:         []string{"the harness decoders (world/jsondec.go, world/xmldec.go) implement RFC 7951 / RFC 6241 semantics for the vsim schema"},
		RequiredProbes: []string{"leaflist-update", "delete-in-change"},
		QuickSeconds:   30, ThoroughSeconds: 480,
	})
}
