package checks

import (
	"context"
	"github.com/sdcio/data-server/pkg/config"
	"github.com/sdcio/data-server/pkg/datastore/target"
	"testing/synctest"

	"fmt"
	"sort"
	"strings"

	"verif/sim"
	"verif/world"
)

func jsonHasLeaf(v any) bool {
	switch x := v.(type) {
	case nil:
		return false
	case map[string]any:
		for _, c := range x {
			if jsonHasLeaf(c) {
				return true
			}
		}
		return false
	case []any:
		for _, c := range x {
			if jsonHasLeaf(c) {
				return true
			}
		}
		return false
	default:
		return true
	}
}

func jsonEmpty(v any) bool {
	switch x := v.(type) {
	case nil:
		return true
	case map[string]any:
		return len(x) == 0
	case []any:
		return len(x) == 0
	}
	return false
}

// resubmitTx builds a verbatim re-submission of a subset of the live intents.
func resubmitTx(h *Hist, id string) *TxSpec {
	names := h.M.LiveNames()
	if len(names) == 0 {
		return nil
	}
	tx := &TxSpec{ID: id}
	for _, n := range names {
		if len(tx.Intents) > 0 && !h.RC.T.Bool(1, 2) {
			continue
		}
		it := h.M.Live[n]
		form := []string{"typed", "string", "json", "json_ietf"}[h.RC.T.Weighted(h.Cfg.FormW)]
		is := IntentSpec{Name: n, Prio: it.Prio, Leaves: explicitLeaves(it), Edit: "resubmit", Form: form}
		fixForm(&is)
		tx.Intents = append(tx.Intents, is)
		if len(tx.Intents) >= 3 {
			break
		}
	}
	return tx
}

func runC09(rc *sim.RunCtx) {
	h, err := NewHist(rc, HistOpts{Profiles: []string{"core", "core", "presence"}, MinTx: 2, MaxTx: 8, Capture: true,
		DevKinds: []string{"direct", "direct", "direct", "gnmi-proto", "gnmi-json", "gnmi-json_ietf", "netconf", "netconf-running"},
		Sync:     &config.Sync{Validate: true, Buffer: 64, WriteWorkers: 1, Config: []*config.SyncProtocol{{Name: "cfg", Protocol: "gnmi", Mode: "on-change"}}},
		Oracles:  map[string]bool{"C01": true, "C02": true}})
	if err != nil {
		rc.HarnessErr("world: %v", err)
		return
	}
	defer h.W.Close()
	// the real Datastore.Sync: now and then the device reports its whole configuration back in a native format; re-applying an
	// unchanged intent must be a no-op after that as well
	var syncCh chan *target.SyncUpdate
	ready := make(chan struct{})
	h.W.Dev.SyncFn = func(ctx context.Context, cfg *config.Sync, c chan *target.SyncUpdate) {
		syncCh = c
		close(ready)
		<-ctx.Done()
	}
	sctx, scancel := context.WithCancel(h.W.Ctx)
	defer scancel()
	go h.W.DS.Sync(sctx)
	<-ready
	n := tierLen(rc, h.Ops)
	step := 0
	for s := 0; s < n; s++ {
		h.AdvanceClock()
		h.Step(step)
		step++
		if len(h.M.Live) == 0 || !rc.T.Bool(2, 3) {
			continue
		}
		if rc.T.Bool(1, 3) {
			style := deviceEchoStyles[rc.T.Choose(len(deviceEchoStyles))]
			ns, err := deviceEcho(rc.T, h.W, h.W.Dev.State, style)
			if err != nil {
				rc.Scenario("   device echo (%s) not possible: %v", style, err)
			} else {
				for _, nf := range ns {
					syncCh <- &target.SyncUpdate{Update: nf}
				}
				synctest.Wait()
				// diagnostic: how far is the running store from the device now
				ndiff := -1
				if dump, derr := h.W.DumpConfig(); derr == nil {
					run := map[string]string{}
					for _, e := range dump {
						run[e.Path.String()] = world.NormAbs(e.Abs)
					}
					ndiff = 0
					for k, l := range h.W.Dev.State {
						if n := h.W.SI.Node(l.Path); n != nil && n.Kind == world.KContainer {
							continue
						}
						if run[k] != world.NormAbs(l.Abs) {
							ndiff++
						}
					}
				}
				rc.Scenario("   device reports its configuration (%d leaves) as %s, %d notifications; running store differs from the device in %d leaves", len(h.W.Dev.State), style, len(ns), ndiff)
				if ndiff > 0 {
					rc.Probe("device-echo-running-differs")
				}
				rc.Probe("device-echo")
				rc.Probe("device-echo-" + style)
			}
		}
		h.AdvanceClock()
		tx := resubmitTx(h, fmt.Sprintf("r%d", s))
		if tx == nil {
			continue
		}
		checkResubmit(h, step, tx)
		step++
	}
}

func checkResubmit(h *Hist, step int, tx *TxSpec) {
	rc := h.RC
	w := h.W
	intBefore, err1 := w.DumpIntended()
	cfgBefore, err2 := w.DumpConfig()
	if err1 != nil || err2 != nil {
		rc.HarnessErr("dump: %v %v", err1, err2)
		return
	}
	rc.Step()
	rc.Scenario("%d: RESUBMIT %s", step, tx.Render())
	shadowed, ruling := false, false
	for _, is := range tx.Intents {
		for _, l := range h.M.Live[is.Name].Leaves {
			if r := h.M.Ruler(l.Key()); r != nil && r.Name == is.Name {
				ruling = true
			} else {
				shadowed = true
			}
		}
	}
	if shadowed {
		rc.Probe("resubmit-shadowed")
	}
	if ruling {
		rc.Probe("resubmit-ruling")
	}
	if shadowed && ruling {
		rc.Probe("resubmit-mixed")
		rc.NonTrivial()
	}
	forms := []string{}
	for _, is := range tx.Intents {
		forms = append(forms, is.Form)
	}
	sort.Strings(forms)
	rc.SigAdd(fmt.Sprintf("resubmit|n%d|sh%t|ru%t|%s|live%d", len(tx.Intents), shadowed, ruling, strings.Join(forms, "+"), len(h.M.Live)))
	res := ExecTx(rc, w, tx, 5e9)
	f := map[string]string{"forms": strings.Join(forms, "+"), "shadowed": fmt.Sprint(shadowed), "ruling": fmt.Sprint(ruling)}
	if !res.Accepted() {
		f["error"] = normErr(res.Err)
		prop, clause := "C09", "C09.resubmit-rejected"
		if f["forms"] != "typed" && !strings.Contains(f["forms"], "typed+typed") {
			// the same data in another input form being refused is a value-conversion matter (C12)
			allTyped := true
			for _, is := range tx.Intents {
				if is.Form != "typed" {
					allTyped = false
				}
			}
			if !allTyped {
				prop, clause = "C12", "C12.form-rejected"
			}
		}
		rc.Report(sim.Item{Prop: prop, Clause: clause, Step: step, Fields: f, Detail: fmt.Sprintf("verbatim re-submission was not accepted: err=%v intentErrors=%v", normErr(res.Err), res.IntentErrors)})
		return
	}
	if err := Confirm(rc, w, tx.ID); err != nil {
		rc.Report(sim.Item{Prop: "C06", Clause: "C06.confirm-open-failed", Step: step, Detail: normErr(err)})
	}
	if len(res.Updates)+len(res.Deletes) > 0 {
		rc.Report(sim.Item{Prop: "C09", Clause: "C09.response-not-empty", Step: step, Fields: f, Detail: fmt.Sprintf("response reports updates %v deletes %v", res.Updates, res.Deletes)})
	}
	if res.SetsAfter > res.SetsBefore {
		rec := w.Dev.Sets[res.SetsAfter-1]
		if len(rec.Updates)+len(rec.Deletes) > 0 {
			ff := copyFields(f)
			ff["encoding"] = "proto"
			rc.Report(sim.Item{Prop: "C09", Clause: "C09.device-traffic", Step: step, Fields: ff, Detail: strings.Join(rec.Render(), "; ")})
		}
		if jsonHasLeaf(rec.JSON) {
			ff := copyFields(f)
			ff["encoding"] = "json"
			rc.Report(sim.Item{Prop: "C09", Clause: "C09.device-traffic", Step: step, Fields: ff, Detail: fmt.Sprintf("JSON change document carries leaves: %v", rec.JSON)})
		}
		if jsonHasLeaf(rec.JSONIETF) {
			ff := copyFields(f)
			ff["encoding"] = "json_ietf"
			rc.Report(sim.Item{Prop: "C09", Clause: "C09.device-traffic", Step: step, Fields: ff, Detail: fmt.Sprintf("JSON_IETF change document carries leaves: %v", rec.JSONIETF)})
		}
		combos := make([]string, 0, len(rec.XML))
		for c := range rec.XML {
			combos = append(combos, c)
		}
		sort.Strings(combos)
		for _, c := range combos {
			if strings.TrimSpace(rec.XML[c]) != "" {
				ff := copyFields(f)
				ff["encoding"] = "xml"
				ff["combo"] = c
				rc.Report(sim.Item{Prop: "C09", Clause: "C09.device-traffic", Step: step, Fields: ff, Detail: "XML change document not empty: " + rec.XML[c]})
				break
			}
		}
		for k, e := range rec.EncErr {
			rc.Report(sim.Item{Prop: "C10", Clause: "C10.encoding-error", Step: step, Fields: map[string]string{"encoding": k}, Detail: e})
		}
	}
	intAfter, err1 := w.DumpIntended()
	cfgAfter, err2 := w.DumpConfig()
	if err1 != nil || err2 != nil {
		rc.HarnessErr("dump: %v %v", err1, err2)
		return
	}
	a, b := diffSets(world.RenderEntries(intBefore, true), world.RenderEntries(intAfter, true))
	if len(a)+len(b) > 0 {
		rc.Report(sim.Item{Prop: "C09", Clause: "C09.intended-changed", Step: step, Fields: f, Detail: fmt.Sprintf("removed %v added %v", a, b)})
	}
	a, b = diffSets(world.RenderEntries(cfgBefore, false), world.RenderEntries(cfgAfter, false))
	if len(a)+len(b) > 0 {
		rc.Report(sim.Item{Prop: "C09", Clause: "C09.running-changed", Step: step, Fields: f, Detail: fmt.Sprintf("removed %v added %v", a, b)})
	}
	// the model is unchanged by a verbatim re-submission; the C01/C02 oracles still have to hold
	OracleC01(rc, w, h.M, step, tx)
	OracleC02(rc, w, h.M, step, tx)
}

func copyFields(f map[string]string) map[string]string {
	o := map[string]string{}
	for k, v := range f {
		o[k] = v
	}
	return o
}

func init() {
	Register(&sim.Check{
		ID: "C09", Level: "exploration", Run: runC09,
		Rule: "C01 histories; after most steps a random subset of the live intents (ruling, shadowed or mixed) is re-submitted verbatim in a drawn input form (typed/string/JSON/JSON_IETF of the same data). The direct device captures the proto view plus JSON, JSON_IETF and the 8 XML documents of the same tree: all must be empty in content, the response must be empty and both stores unchanged; with the real gnmiTarget as device the decoded SetRequest must carry nothing. Before a third of the re-submissions the device reports its whole configuration back through the real Datastore.Sync in a native format (gNMI notifications per container with prefix, typed or JSON_IETF values; flat gNMI; NETCONF get-config reply through ncTarget.Get and the XML adapter). Non-trivial = a re-submission that mixes ruling and shadowed leaves; distinct = signature incl. forms and shadowed/ruling mix.",
		Real: realCore, Stub: stubCore,
		RequiredProbes: []string{"resubmit-shadowed", "resubmit-ruling", "resubmit-mixed"},
		QuickSeconds:   35, ThoroughSeconds: 600,
	})
}
