package world

import (
	"context"
	"fmt"
	"sort"
	"strings"

	"github.com/openconfig/gnmi/proto/gnmi"
	"google.golang.org/grpc"
	"google.golang.org/grpc/codes"
	"google.golang.org/grpc/status"
)

// GNMIFront is an in-process gnmi.GNMIClient in front of the abstract device state. The real gnmiTarget (built through the
// verif hook around this client) sends it the gnmi.SetRequests it builds from the tree; the front end decodes them with the
// harness's own schema-driven decoders and applies them under gNMI Set semantics (deletes, then updates; a JSON value is
// merged below its path). A request the device cannot decode is refused as a whole, like a real device would.
type GNMIFront struct {
	Dev *Device
	// Encodings the device announces (what VerifNewGNMITarget was given)
	Encodings []gnmi.Encoding
}

func (g *GNMIFront) Capabilities(ctx context.Context, in *gnmi.CapabilityRequest, opts ...grpc.CallOption) (*gnmi.CapabilityResponse, error) {
	return &gnmi.CapabilityResponse{SupportedEncodings: g.Encodings, GNMIVersion: "0.8.0"}, nil
}

func (g *GNMIFront) Get(ctx context.Context, in *gnmi.GetRequest, opts ...grpc.CallOption) (*gnmi.GetResponse, error) {
	return &gnmi.GetResponse{}, nil
}

func (g *GNMIFront) Subscribe(ctx context.Context, opts ...grpc.CallOption) (gnmi.GNMI_SubscribeClient, error) {
	return nil, status.Error(codes.Unimplemented, "vsim device: Subscribe is not served")
}

func fromGnmiPath(prefix, p *gnmi.Path) Path {
	var out Path
	for _, pp := range []*gnmi.Path{prefix, p} {
		for _, e := range pp.GetElem() {
			pe := PElem{Name: e.GetName()}
			if len(e.GetKey()) > 0 {
				pe.Keys = map[string]string{}
				for k, v := range e.GetKey() {
					pe.Keys[k] = v
				}
			}
			out = append(out, pe)
		}
	}
	return out
}

// absGnmiScalar maps a gNMI typed value given for a leaf (or a leaf-list element) to the abstract domain.
func absGnmiScalar(n *Node, tv *gnmi.TypedValue) (string, error) {
	if tv == nil || tv.Value == nil {
		return "", fmt.Errorf("update without a value")
	}
	t := n.Type
	isUnion := t != nil && t.GetType() == "union"
	switch v := tv.Value.(type) {
	case *gnmi.TypedValue_StringVal:
		return AbsScalarFromString(t, v.StringVal), nil
	case *gnmi.TypedValue_AsciiVal:
		return AbsScalarFromString(t, v.AsciiVal), nil
	case *gnmi.TypedValue_IntVal:
		if isUnion {
			return fmt.Sprintf("u-int:%d", v.IntVal), nil
		}
		return fmt.Sprintf("int:%d", v.IntVal), nil
	case *gnmi.TypedValue_UintVal:
		if isUnion {
			return fmt.Sprintf("u-int:%d", v.UintVal), nil
		}
		return fmt.Sprintf("int:%d", v.UintVal), nil
	case *gnmi.TypedValue_BoolVal:
		if t != nil && t.GetType() == "empty" {
			// the scalar form of a leaf of type empty is boolean true (convention of the gNMI reference implementations)
			if v.BoolVal {
				return "empty", nil
			}
			return "", fmt.Errorf("leaf of type empty given as boolean false")
		}
		return fmt.Sprintf("bool:%t", v.BoolVal), nil
	case *gnmi.TypedValue_DoubleVal:
		return AbsScalarFromString(t, fmt.Sprint(v.DoubleVal)), nil
	case *gnmi.TypedValue_FloatVal:
		return AbsScalarFromString(t, fmt.Sprint(v.FloatVal)), nil
	case *gnmi.TypedValue_DecimalVal:
		return absDecDigitsRaw(v.DecimalVal.GetDigits(), v.DecimalVal.GetPrecision()), nil
	case *gnmi.TypedValue_JsonVal:
		return absJSONScalar(t, v.JsonVal), nil
	case *gnmi.TypedValue_JsonIetfVal:
		return absJSONScalar(t, v.JsonIetfVal), nil
	case *gnmi.TypedValue_BytesVal:
		return fmt.Sprintf("bytes:%x", v.BytesVal), nil
	}
	return "", fmt.Errorf("typed value of kind %T is not a scalar", tv.Value)
}

// decodeGnmiUpdate turns one gNMI update into leaves.
func (g *GNMIFront) decodeGnmiUpdate(p Path, tv *gnmi.TypedValue) ([]*Leaf, error) {
	si := g.Dev.SI
	n := si.Node(p)
	if len(p) == 0 {
		n = si.Nodes[""]
	}
	if n == nil {
		return nil, fmt.Errorf("unknown path %s", p)
	}
	if tv == nil || tv.Value == nil {
		return nil, fmt.Errorf("update for %s carries no value", p)
	}
	// key values in the path must be complete for every list on the way
	for i := range p {
		if pn := si.Node(p[:i+1]); pn != nil && pn.Kind == KList && i < len(p)-1 {
			if len(p[i].Keys) != len(pn.Keys) {
				return nil, fmt.Errorf("path %s addresses below list %s without all its keys", p, pn.Keyless)
			}
		}
	}
	var jsonDoc []byte
	switch v := tv.Value.(type) {
	case *gnmi.TypedValue_JsonVal:
		jsonDoc = v.JsonVal
	case *gnmi.TypedValue_JsonIetfVal:
		jsonDoc = v.JsonIetfVal
	}
	switch n.Kind {
	case KLeaf:
		abs, err := absGnmiScalar(n, tv)
		if err != nil {
			return nil, fmt.Errorf("%s: %w", p, err)
		}
		if strings.HasPrefix(abs, "bad") {
			return nil, fmt.Errorf("%s: value %s does not fit the leaf type", p, abs)
		}
		return []*Leaf{{Path: p.Clone(), Abs: abs}}, nil
	case KLeafList:
		if jsonDoc != nil {
			return []*Leaf{{Path: p.Clone(), Abs: absJSONScalar(n.Type, jsonDoc)}}, nil
		}
		ll, ok := tv.Value.(*gnmi.TypedValue_LeaflistVal)
		if !ok {
			return nil, fmt.Errorf("%s: leaf-list given as %T", p, tv.Value)
		}
		els := make([]string, 0, len(ll.LeaflistVal.GetElement()))
		for _, e := range ll.LeaflistVal.GetElement() {
			a, err := absGnmiScalar(n, e)
			if err != nil {
				return nil, fmt.Errorf("%s: %w", p, err)
			}
			els = append(els, a)
		}
		sort.Strings(els)
		return []*Leaf{{Path: p.Clone(), Abs: "ll:[" + strings.Join(els, "|") + "]"}}, nil
	default: // container, list, list entry, root
		if jsonDoc == nil {
			if n.Kind == KContainer && n.Presence {
				// a presence container has no scalar form in gNMI; accept the empty JSON object only
				return nil, fmt.Errorf("%s: presence container given as scalar %T, expected a JSON object", p, tv.Value)
			}
			return nil, fmt.Errorf("%s: %s given as %T", p, kindName(n.Kind), tv.Value)
		}
		leaves, err := si.DecodeJSON(p, jsonDoc)
		if err != nil {
			return nil, err
		}
		return leaves, nil
	}
}

func kindName(k NodeKind) string {
	switch k {
	case KContainer:
		return "container"
	case KList:
		return "list"
	case KLeaf:
		return "leaf"
	case KLeafList:
		return "leaf-list"
	}
	return "node"
}

// Set implements gNMI Set on the abstract device.
func (g *GNMIFront) Set(ctx context.Context, req *gnmi.SetRequest, opts ...grpc.CallOption) (*gnmi.SetResponse, error) {
	d := g.Dev
	idx := len(d.Sets)
	if d.Hook != nil {
		if err := d.Hook(idx); err != nil {
			return nil, err
		}
	}
	rec := &SetRecord{Seq: idx, EncErr: map[string]string{}, Wire: "gnmi"}
	for _, del := range req.GetDelete() {
		rec.Deletes = append(rec.Deletes, fromGnmiPath(req.GetPrefix(), del))
	}
	var wireErr error
	if len(req.GetReplace()) > 0 {
		wireErr = fmt.Errorf("request carries %d replace operations (data-server is not expected to issue any)", len(req.GetReplace()))
	}
	for _, u := range req.GetUpdate() {
		p := fromGnmiPath(req.GetPrefix(), u.GetPath())
		leaves, err := g.decodeGnmiUpdate(p, u.GetVal())
		if err != nil {
			if wireErr == nil {
				wireErr = err
			}
			continue
		}
		rec.Updates = append(rec.Updates, leaves...)
	}
	if d.NextFault != nil {
		rec.Fault = d.NextFault(idx)
	}
	d.Sets = append(d.Sets, rec)
	for _, l := range rec.Render() {
		d.logf("DEVICE(gnmi) set#%d %s", idx, l)
	}
	if wireErr != nil {
		rec.WireErr = wireErr.Error()
		d.logf("DEVICE(gnmi) set#%d refused: %s", idx, rec.WireErr)
		return nil, status.Errorf(codes.InvalidArgument, "vsim device cannot decode the request: %v", wireErr)
	}
	d.logf("DEVICE(gnmi) set#%d fault=%s", idx, rec.Fault)
	switch rec.Fault {
	case DevReject:
		return nil, ErrDevReject
	case DevUnreachable:
		return nil, ErrDevUnreachable
	}
	prior := d.State.Clone()
	ApplyGnmi(d.State, rec.Deletes, rec.Updates)
	// YANG reading of presence containers (the favourable one for a sender that does not re-state what exists): a presence
	// container that existed, explicitly or through a descendant, stays until it or an ancestor is deleted explicitly
	for k, l := range d.State.PersistPresence(d.SI, prior, rec.Deletes) {
		if _, ok := d.State[k]; !ok {
			if n := d.SI.Node(l.Path); n != nil && n.Kind == KContainer && n.Presence && !hasLeafBelowState(d.State, l.Path) {
				d.State[k] = l
			}
		}
	}
	rec.Applied = true
	if rec.Fault == DevLostReply {
		return nil, ErrDevLostReply
	}
	return &gnmi.SetResponse{}, nil
}

func hasLeafBelowState(s DevState, p Path) bool {
	for _, l := range s {
		if len(l.Path) > len(p) && l.Path.HasPrefix(p) {
			return true
		}
	}
	return false
}

var _ gnmi.GNMIClient = (*GNMIFront)(nil)
